package rules

import (
	"fmt"
	"sort"

	"golang.org/x/tools/go/ssa"

	"verif/internal/flow"
)

// Lock-order analysis (C14 R8). Mutexes are abstracted to classes "Type.field" (the struct type owning the
// mutex field; an embedded sync.Mutex is the field "Mutex"). An edge A → B records a place where a lock of
// class B is acquired — directly, or inside a function called by plain calls (bounded depth) — while a lock of
// class A may be held. Two goroutines taking two classes in opposite orders can block each other for ever;
// the check reports every cycle among the classes, with one witness site per edge.

type lockEdge struct {
	from, to string
	at       ssa.Instruction // where `to` is acquired (or the call leading to it) while `from` is held
	fn       *ssa.Function
	via      string
}

// lockClassOf: class of the mutex operated on by a sync lock call ("" if it is not a field of a named struct).
func lockClassOf(ci ssa.CallInstruction) string { return mutexField(ci) }

// acquiredClasses: lock classes f may acquire, itself or through plain static calls.
func (c *Ctx) acquiredClasses(f *ssa.Function, depth int, memo map[*ssa.Function]map[string]bool) map[string]bool {
	if m, ok := memo[f]; ok {
		return m
	}
	out := map[string]bool{}
	memo[f] = out
	if f == nil || f.Blocks == nil || depth > 3 || !c.P.IsLibrary(f) {
		return out
	}
	for _, o := range lockOps(f) {
		if o.acquire && !o.deferred {
			if cl := lockClassOf(o.in); cl != "" {
				out[cl] = true
			}
		}
	}
	for _, ci := range flow.CallInstrs(f) {
		if _, isGo := ci.(*ssa.Go); isGo {
			continue
		}
		if g := flow.StaticCallee(ci); g != nil && g != f {
			for cl := range c.acquiredClasses(g, depth+1, memo) {
				out[cl] = true
			}
		}
	}
	return out
}

func (c *Ctx) lockOrderEdges() []lockEdge {
	memo := map[*ssa.Function]map[string]bool{}
	var edges []lockEdge
	seen := map[string]bool{}
	add := func(e lockEdge) {
		k := e.from + ">" + e.to
		if e.from == "" || e.to == "" || e.from == e.to || seen[k] {
			return
		}
		seen[k] = true
		edges = append(edges, e)
	}
	for _, f := range c.P.LibraryFuncs() {
		ops := lockOps(f)
		hasAcq := false
		for _, o := range ops {
			if o.acquire && !o.deferred && lockClassOf(o.in) != "" {
				hasAcq = true
			}
		}
		if !hasAcq {
			continue
		}
		for _, ci := range flow.CallInstrs(f) {
			if _, isGo := ci.(*ssa.Go); isGo {
				continue
			}
			if _, isDefer := ci.(*ssa.Defer); isDefer {
				continue
			}
			var targets map[string]bool
			via := ""
			isAcq := false
			for _, o := range ops {
				if o.in == ci && o.acquire {
					isAcq = true
					targets = map[string]bool{lockClassOf(ci): true}
				}
			}
			if !isAcq {
				g := flow.StaticCallee(ci)
				if g == nil || g.Blocks == nil || !c.P.IsLibrary(g) {
					continue
				}
				targets = c.acquiredClasses(g, 1, memo)
				via = " through " + g.Name()
			}
			if len(targets) == 0 {
				continue
			}
			for _, h := range mayHeldAt(f, ci) {
				if h.in == ci {
					continue
				}
				from := lockClassOf(h.in)
				for to := range targets {
					add(lockEdge{from: from, to: to, at: ci, fn: f, via: via})
				}
			}
		}
	}
	sort.Slice(edges, func(i, j int) bool {
		if edges[i].from != edges[j].from {
			return edges[i].from < edges[j].from
		}
		return edges[i].to < edges[j].to
	})
	return edges
}

// lockOrder reports the lock-order graph and its cycles under the given rule.
func (c *Ctx) lockOrder(rule string) {
	r := c.R
	edges := c.lockOrderEdges()
	adj := map[string][]lockEdge{}
	for _, e := range edges {
		adj[e.from] = append(adj[e.from], e)
	}
	// reach[a][b]: b reachable from a
	reach := func(a, b string) []lockEdge {
		seen := map[string]bool{}
		var dfs func(x string, path []lockEdge) []lockEdge
		dfs = func(x string, path []lockEdge) []lockEdge {
			if seen[x] {
				return nil
			}
			seen[x] = true
			for _, e := range adj[x] {
				p := append(append([]lockEdge{}, path...), e)
				if e.to == b {
					return p
				}
				if q := dfs(e.to, p); q != nil {
					return q
				}
			}
			return nil
		}
		return dfs(a, nil)
	}
	if len(edges) == 0 {
		r.Trivial(rule, "lock-order:no-nesting", "-", "no lock is acquired while another is held")
		return
	}
	for _, e := range edges {
		key := fmt.Sprintf("lock-order:%s-before-%s", e.from, e.to)
		if back := reach(e.to, e.from); back != nil {
			desc := ""
			for _, b := range back {
				desc += fmt.Sprintf("; %s is taken while %s is held in %s%s (%s)", b.to, b.from, fname(b.fn), b.via, c.pos(b.at))
			}
			r.Fail(rule, key, c.pos(e.at), fmt.Sprintf("lock-order cycle: %s is taken while %s is held in %s%s%s — two goroutines taking them in opposite orders block each other for ever (the connection never terminates, its notification never fires)", e.to, e.from, fname(e.fn), e.via, desc))
		} else {
			r.Ok(rule, key, c.pos(e.at), fmt.Sprintf("%s taken while %s held in %s%s; no path of acquisitions leads back", e.to, e.from, fname(e.fn), e.via))
		}
	}
}
