package rules

import (
	"fmt"
	"go/token"
	"go/types"
	"sort"
	"strings"

	"golang.org/x/tools/go/ssa"

	"verif/internal/flow"
)

// sx is a small symbolic expression over the parameters of a function (engine E4: must-equal
// provenance with fresh-object summaries).
//
//	const:<v>            constant
//	param:<i>            i-th parameter (receiver first)
//	path:<i>:<f1.f2...>  load of a field path rooted at parameter i
//	bin:<op>(a,b)        binary operation
//	phi(a|b|...)         join of alternatives (sorted, deduplicated)
//	call:<name>(...)     result of a call
//	unk:<desc>           anything else
type sx struct {
	Op   string
	Leaf string
	Args []*sx
}

func (e *sx) String() string {
	if e == nil {
		return "<nil>"
	}
	switch e.Op {
	case "const", "param", "path", "unk":
		return e.Op + ":" + e.Leaf
	}
	var as []string
	for _, a := range e.Args {
		as = append(as, a.String())
	}
	if e.Op == "phi" {
		return "phi(" + strings.Join(as, "|") + ")"
	}
	return e.Op + e.Leaf + "(" + strings.Join(as, ",") + ")"
}

func sxConst(s string) *sx { return &sx{Op: "const", Leaf: s} }
func sxUnk(s string) *sx   { return &sx{Op: "unk", Leaf: s} }

func sxPhi(alts ...*sx) *sx {
	m := map[string]*sx{}
	var add func(a *sx)
	add = func(a *sx) {
		if a.Op == "phi" {
			for _, x := range a.Args {
				add(x)
			}
			return
		}
		m[a.String()] = a
	}
	for _, a := range alts {
		add(a)
	}
	var ks []string
	for k := range m {
		ks = append(ks, k)
	}
	sort.Strings(ks)
	if len(ks) == 1 {
		return m[ks[0]]
	}
	out := &sx{Op: "phi"}
	for _, k := range ks {
		out.Args = append(out.Args, m[k])
	}
	return out
}

// symEval renders SSA values of function f as sx over f's parameters.
type symEval struct {
	c    *Ctx
	f    *ssa.Function
	memo map[ssa.Value]*sx
	// selfObj/selfSum: while applying stores to a fresh object, loads of its own fields read
	// the summary built so far (read-modify-write such as a.Header.CommandFlags |= x).
	selfObj ssa.Value
	selfSum objSummary
	// objs: summaries of fresh objects created in f (by allocation or by calling a summarised
	// constructor), keyed by the SSA value holding the pointer.
	depth int
}

func (c *Ctx) newSymEval(f *ssa.Function, depth int) *symEval {
	return &symEval{c: c, f: f, memo: map[ssa.Value]*sx{}, depth: depth}
}

func paramIndex(f *ssa.Function, p *ssa.Parameter) int {
	for i, x := range f.Params {
		if x == p {
			return i
		}
	}
	return -1
}

func (se *symEval) eval(v ssa.Value) *sx {
	if e, ok := se.memo[v]; ok {
		if e == nil {
			return sxUnk("cycle")
		}
		return e
	}
	se.memo[v] = nil
	e := se.eval1(v)
	se.memo[v] = e
	return e
}

func (se *symEval) eval1(v ssa.Value) *sx {
	switch x := v.(type) {
	case *ssa.Const:
		if x.Value == nil {
			return sxConst("nil")
		}
		return sxConst(x.Value.ExactString())
	case *ssa.Parameter:
		return &sx{Op: "param", Leaf: fmt.Sprint(paramIndex(se.f, x))}
	case *ssa.Convert:
		return se.eval(x.X)
	case *ssa.ChangeType:
		return se.eval(x.X)
	case *ssa.MakeInterface:
		return se.eval(x.X)
	case *ssa.BinOp:
		return &sx{Op: "bin:", Leaf: x.Op.String(), Args: []*sx{se.eval(x.X), se.eval(x.Y)}}
	case *ssa.Phi:
		var alts []*sx
		for _, e := range x.Edges {
			alts = append(alts, se.eval(e))
		}
		return sxPhi(alts...)
	case *ssa.UnOp:
		if x.Op == token.MUL {
			// load: of a field path rooted at a parameter?
			if root, fields, ok := fieldPath(x.X); ok {
				if se.selfObj != nil && flow.Peel(root) == se.selfObj {
					if cur, ok := se.selfSum[strings.Join(fields, ".")]; ok {
						return cur
					}
					return sxConst("zero")
				}
				if p, isP := root.(*ssa.Parameter); isP && p.Parent() == se.f {
					return &sx{Op: "path", Leaf: fmt.Sprintf("%d:%s", paramIndex(se.f, p), strings.Join(fields, "."))}
				}
				// spilled parameter (closure capture): root is load of alloc holding the param
				if rp := spilledParam(root); rp != nil && rp.Parent() == se.f {
					return &sx{Op: "path", Leaf: fmt.Sprintf("%d:%s", paramIndex(se.f, rp), strings.Join(fields, "."))}
				}
				// free variable of a closure bound to a parameter of the parent: treat as the closure's own "param"
				if fv, isFV := root.(*ssa.FreeVar); isFV {
					return &sx{Op: "path", Leaf: "fv" + fv.Name() + ":" + strings.Join(fields, ".")}
				}
				if fvp := spilledFreeVar(root); fvp != nil {
					return &sx{Op: "path", Leaf: "fv" + fvp.Name() + ":" + strings.Join(fields, ".")}
				}
			}
			if g, ok := x.X.(*ssa.Global); ok {
				return &sx{Op: "unk", Leaf: "global " + g.Name()}
			}
			if a, ok := x.X.(*ssa.Alloc); ok {
				var alts []*sx
				for _, s := range flow.SpillSources(x) {
					alts = append(alts, se.eval(s))
				}
				_ = a
				if len(alts) > 0 {
					return sxPhi(alts...)
				}
			}
			if fv, ok := x.X.(*ssa.FreeVar); ok {
				return &sx{Op: "param", Leaf: "fv" + fv.Name()}
			}
		}
		return sxUnk(short(x.String(), 40))
	case *ssa.Call:
		// inline module helpers returning a single scalar (e.g. a flag-computing helper)
		if g := flow.StaticCallee(x); g != nil && se.depth > 0 && g.Blocks != nil && se.c.P.InModule(pkgOf(g)) && g.Signature.Results().Len() == 1 {
			if _, isBasic := g.Signature.Results().At(0).Type().Underlying().(*types.Basic); isBasic {
				inner := se.c.newSymEval(g, se.depth-1)
				var alts []*sx
				for _, rv := range flow.ReturnValues(g, 0) {
					alts = append(alts, inner.eval(rv))
				}
				if len(alts) > 0 {
					var args []*sx
					for _, a := range x.Call.Args {
						args = append(args, se.eval(a))
					}
					return substitute(sxPhi(alts...), args)
				}
			}
		}
		name := "dynamic"
		if o := flow.CalleeObj(x); o != nil {
			name = o.FullName()
		} else if b, ok := x.Call.Value.(*ssa.Builtin); ok {
			name = b.Name()
		}
		var args []*sx
		for _, a := range x.Call.Args {
			args = append(args, se.eval(a))
		}
		return &sx{Op: "call:", Leaf: name, Args: args}
	case *ssa.Extract:
		inner := se.eval(x.Tuple)
		return &sx{Op: "extract:", Leaf: fmt.Sprint(x.Index), Args: []*sx{inner}}
	case *ssa.FreeVar:
		return &sx{Op: "param", Leaf: "fv" + x.Name()}
	}
	return sxUnk(short(v.String(), 40))
}

func spilledParam(v ssa.Value) *ssa.Parameter {
	u, ok := v.(*ssa.UnOp)
	if !ok || u.Op != token.MUL {
		return nil
	}
	a, ok := u.X.(*ssa.Alloc)
	if !ok {
		return nil
	}
	var p *ssa.Parameter
	n := 0
	for _, ref := range flow.Referrers(a) {
		if st, ok := ref.(*ssa.Store); ok && st.Addr == ssa.Value(a) {
			n++
			p, _ = st.Val.(*ssa.Parameter)
		}
	}
	if n == 1 {
		return p
	}
	return nil
}

func spilledFreeVar(v ssa.Value) *ssa.FreeVar {
	u, ok := v.(*ssa.UnOp)
	if !ok || u.Op != token.MUL {
		return nil
	}
	fv, _ := u.X.(*ssa.FreeVar)
	return fv
}

// fieldPath decomposes an address &root.f1.f2 (through pointer loads) into root and field names.
func fieldPath(addr ssa.Value) (ssa.Value, []string, bool) {
	var fields []string
	v := addr
	for i := 0; i < 12; i++ {
		switch x := v.(type) {
		case *ssa.FieldAddr:
			_, fld, _, _ := flow.FieldOf(x)
			fields = append([]string{fld}, fields...)
			v = x.X
			continue
		case *ssa.UnOp:
			if x.Op == token.MUL {
				if _, isFA := x.X.(*ssa.FieldAddr); isFA {
					v = x.X
					continue
				}
			}
		}
		break
	}
	if len(fields) == 0 {
		return nil, nil, false
	}
	return v, fields, true
}

// ---- fresh object summaries ----

// objSummary maps field paths ("Header.HopByHopID", "stream") of a freshly built object to the
// expression stored there, in terms of the parameters of the function that built it.
type objSummary map[string]*sx

// summarizeConstructor: for a function returning (as result 0) an object it allocates itself,
// the field-path -> expression map at return. Nested objects reached through stored fresh
// pointers are flattened (Header.X).
func (c *Ctx) summarizeConstructor(g *ssa.Function, depth int) (objSummary, bool) {
	if g == nil || g.Blocks == nil {
		return nil, false
	}
	rvs := flow.ReturnValues(g, 0)
	if len(rvs) == 1 {
		se := c.newSymEval(g, depth)
		return se.objectState(rvs[0], nil, depth)
	}
	// a builder that can also give up — return nil, err — before it has made the object: the state that counts
	// is the one at the single return that hands the object out
	var ret *ssa.Return
	n := 0
	flow.Instrs(g, func(in ssa.Instruction) {
		rt, ok := in.(*ssa.Return)
		if !ok || len(rt.Results) == 0 || rt.Block() == g.Recover || flow.IsNilConst(rt.Results[0]) {
			return
		}
		ret = rt
		n++
	})
	if n != 1 {
		return nil, false
	}
	se := c.newSymEval(g, depth)
	return se.objectState(ret.Results[0], ret, depth)
}

// objectState computes the summary of the object pointed to by `obj` in se.f at instruction
// `at` (nil = function exit): allocation or constructor call plus the dominating stores.
func (se *symEval) baseSummary(obj ssa.Value, depth int) (objSummary, bool) {
	sum := objSummary{}
	switch x := obj.(type) {
	case *ssa.Alloc:
		return sum, true
	case *ssa.Phi:
		var parts []objSummary
		for _, e := range x.Edges {
			p, ok := se.baseSummary(flow.Peel(e), depth)
			if !ok {
				return nil, false
			}
			parts = append(parts, p)
		}
		keys := map[string]bool{}
		for _, p := range parts {
			for k := range p {
				keys[k] = true
			}
		}
		for k := range keys {
			var alts []*sx
			for _, p := range parts {
				if v, ok := p[k]; ok {
					alts = append(alts, v)
				} else {
					alts = append(alts, sxConst("zero"))
				}
			}
			sum[k] = sxPhi(alts...)
		}
		return sum, true
	case *ssa.Extract:
		// (object, err) := builder(…): the object part
		if call, ok := x.Tuple.(*ssa.Call); ok && x.Index == 0 {
			return se.baseSummary(call, depth)
		}
		return nil, false
	case *ssa.Call:
		g := flow.StaticCallee(x)
		if g == nil || !se.c.P.InModule(pkgOf(g)) || depth <= 0 {
			return nil, false
		}
		inner, ok := se.c.summarizeConstructor(g, depth-1)
		if !ok {
			return nil, false
		}
		var args []*sx
		for _, a := range x.Call.Args {
			args = append(args, se.eval(a))
		}
		for k, v := range inner {
			sum[k] = substitute(v, args)
		}
		return sum, true
	}
	return nil, false
}

func (se *symEval) objectState(obj ssa.Value, at ssa.Instruction, depth int) (objSummary, bool) {
	obj = flow.Peel(obj)
	sum, ok := se.baseSummary(obj, depth)
	if !ok {
		return nil, false
	}
	// apply stores in se.f whose address roots at obj — and the stores a module helper performs through a
	// pointer into obj that it is handed (mirrorIdentifiers(nm.Header, req))
	type upd struct {
		path string
		st   ssa.Instruction // the store, or the call of the helper that stores
		val  ssa.Value       // stored value (direct stores)
		hval *sx             // value expressed in the caller (helper stores)
		cond bool            // helper store that does not happen on every path of the helper
	}
	var ups []upd
	flow.Instrs(se.f, func(in ssa.Instruction) {
		switch x := in.(type) {
		case *ssa.Store:
			root, fields, ok := fieldPathThrough(x.Addr, obj)
			if !ok || root != obj {
				return
			}
			ups = append(ups, upd{path: strings.Join(fields, "."), st: x, val: x.Val})
		case *ssa.Call:
			h := flow.StaticCallee(x)
			if h == nil || h.Blocks == nil || !se.c.P.InModule(pkgOf(h)) || depth <= 0 {
				return
			}
			for ai, a := range x.Call.Args {
				if ai >= len(h.Params) {
					continue
				}
				// the argument: obj itself, or a pointer stored in one of its fields
				var prefix []string
				switch {
				case flow.Peel(a) == obj:
				default:
					u, isLoad := a.(*ssa.UnOp)
					if !isLoad || u.Op != token.MUL {
						continue
					}
					root, fields, ok := fieldPathThrough(u.X, obj)
					if !ok || root != obj {
						continue
					}
					prefix = fields
				}
				if _, isPtr := h.Params[ai].Type().Underlying().(*types.Pointer); !isPtr {
					continue
				}
				hp := h.Params[ai]
				var args []*sx
				for _, aa := range x.Call.Args {
					args = append(args, se.eval(aa))
				}
				hse := se.c.newSymEval(h, depth-1)
				flow.Instrs(h, func(hin ssa.Instruction) {
					st, ok := hin.(*ssa.Store)
					if !ok {
						return
					}
					root, fields, ok := fieldPathThrough(st.Addr, hp)
					if !ok || root != ssa.Value(hp) {
						return
					}
					path := strings.Join(append(append([]string{}, prefix...), fields...), ".")
					ups = append(ups, upd{path: path, st: x, hval: substitute(hse.eval(st.Val), args), cond: !dominatesAllReturns(h, st)})
				})
			}
		}
	})
	// order by dominance (program order within straight-line code)
	sort.SliceStable(ups, func(i, j int) bool { return ups[i].st != ups[j].st && flow.Dominates(ups[i].st, ups[j].st) })
	saveObj, saveSum := se.selfObj, se.selfSum
	se.selfObj, se.selfSum = obj, sum
	defer func() { se.selfObj, se.selfSum = saveObj, saveSum }()
	for _, u := range ups {
		old := sum[u.path]
		if old == nil {
			old = sxConst("zero")
		}
		value := func() *sx {
			if u.hval != nil {
				return u.hval
			}
			return se.valueOrNested(u.val, depth, sum, u.path)
		}
		if at != nil && !flow.Dominates(u.st, at) {
			// may or may not have happened / happens later
			if reaches(se.f, u.st, at) {
				sum[u.path] = sxPhi(old, value())
			}
			continue
		}
		if (at == nil && !dominatesAllReturns(se.f, u.st)) || u.cond {
			sum[u.path] = sxPhi(old, value())
			continue
		}
		sum[u.path] = value()
	}
	return sum, true
}

// valueOrNested: if the stored value is a fresh nested object (pointer to an Alloc), flatten its
// fields under path.; returns the expression for the pointer itself.
func (se *symEval) valueOrNested(v ssa.Value, depth int, sum objSummary, path string) *sx {
	if a, ok := flow.Peel(v).(*ssa.Alloc); ok {
		if _, isStruct := a.Type().(*types.Pointer).Elem().Underlying().(*types.Struct); isStruct {
			nested, ok := se.objectState(a, nil, depth)
			if ok {
				for k, e := range nested {
					sum[path+"."+k] = e
				}
			}
			return &sx{Op: "fresh", Leaf: path}
		}
	}
	// … or the result of a constructor of the module that returns a fresh struct (newHeader(...))
	if call, ok := flow.Peel(v).(*ssa.Call); ok && depth > 0 {
		if pt, isPtr := call.Type().Underlying().(*types.Pointer); isPtr {
			if _, isStruct := pt.Elem().Underlying().(*types.Struct); isStruct {
				if g := flow.StaticCallee(call); g != nil && g.Blocks != nil && se.c.P.InModule(pkgOf(g)) {
					if nested, ok := se.objectState(call, nil, depth); ok && len(nested) > 0 {
						for k, e := range nested {
							sum[path+"."+k] = e
						}
						return &sx{Op: "fresh", Leaf: path}
					}
				}
			}
		}
	}
	return se.eval(v)
}

func reaches(f *ssa.Function, from, to ssa.Instruction) bool {
	return flow.PathAvoiding(f, from, func(in ssa.Instruction) bool { return in == to }, nil) != nil
}

func dominatesAllReturns(f *ssa.Function, in ssa.Instruction) bool {
	ok := true
	flow.Instrs(f, func(x ssa.Instruction) {
		if flow.IsReturn(x) && !flow.Dominates(in, x) {
			ok = false
		}
	})
	return ok
}

// fieldPathThrough: like fieldPath but follows loads of pointer fields of the object (a.Header is
// a *Header stored in the fresh object): &(*(&obj.Header)).HopByHopID -> root obj, [Header HopByHopID].
func fieldPathThrough(addr ssa.Value, obj ssa.Value) (ssa.Value, []string, bool) {
	root, fields, ok := fieldPath(addr)
	if !ok {
		return nil, nil, false
	}
	return flow.Peel(root), fields, true
}

// substitute replaces param:<i> and path:<i>:... by the caller's argument expressions.
func substitute(e *sx, args []*sx) *sx {
	switch e.Op {
	case "param":
		var i int
		if _, err := fmt.Sscanf(e.Leaf, "%d", &i); err == nil && i < len(args) {
			return args[i]
		}
		return e
	case "path":
		var i int
		var rest string
		if n, _ := fmt.Sscanf(e.Leaf, "%d:%s", &i, &rest); n == 2 && i < len(args) {
			a := args[i]
			switch a.Op {
			case "param":
				return &sx{Op: "path", Leaf: a.Leaf + ":" + rest}
			case "path":
				return &sx{Op: "path", Leaf: a.Leaf + "." + rest}
			}
			return sxUnk("field " + rest + " of " + a.String())
		}
		return e
	case "const", "unk":
		return e
	}
	out := &sx{Op: e.Op, Leaf: e.Leaf}
	for _, a := range e.Args {
		out.Args = append(out.Args, substitute(a, args))
	}
	if out.Op == "phi" {
		return sxPhi(out.Args...)
	}
	return out
}

// ---- bit transformer for flag bytes ----

// bitXfer evaluates e as a transformer of the 8 bits of the symbolic input `in` (an sx string):
// per bit: 'z' zero, 'o' one, 's' same as input, 'n' negated. ok=false if not representable.
func bitXfer(e *sx, in string) ([8]byte, bool) {
	var r [8]byte
	if e.String() == in {
		for i := range r {
			r[i] = 's'
		}
		return r, true
	}
	switch e.Op {
	case "phi":
		// every alternative must be representable; bits that differ between alternatives are '?'
		first := true
		for _, a := range e.Args {
			x, ok := bitXfer(a, in)
			if !ok {
				return r, false
			}
			if first {
				r, first = x, false
				continue
			}
			for i := range r {
				if r[i] != x[i] {
					r[i] = '?'
				}
			}
		}
		return r, !first
	case "const":
		var v int64
		if _, err := fmt.Sscanf(e.Leaf, "%d", &v); err != nil {
			return r, false
		}
		for i := 0; i < 8; i++ {
			if v&(1<<uint(i)) != 0 {
				r[i] = 'o'
			} else {
				r[i] = 'z'
			}
		}
		return r, true
	case "bin:":
		a, ok1 := bitXfer(e.Args[0], in)
		b, ok2 := bitXfer(e.Args[1], in)
		if !ok1 || !ok2 {
			return r, false
		}
		for i := 0; i < 8; i++ {
			x, y := a[i], b[i]
			switch e.Leaf {
			case "&":
				r[i] = bitAnd(x, y)
			case "|":
				r[i] = bitNot(bitAnd(bitNot(x), bitNot(y)))
			case "&^":
				r[i] = bitAnd(x, bitNot(y))
			case "^":
				r[i] = bitNot(bitAnd(bitNot(bitAnd(x, bitNot(y))), bitNot(bitAnd(bitNot(x), y))))
			default:
				return r, false
			}
		}
		return r, true
	}
	return r, false
}

func bitNot(x byte) byte {
	switch x {
	case 'z':
		return 'o'
	case 'o':
		return 'z'
	case 's':
		return 'n'
	case 'n':
		return 's'
	}
	return '?'
}

func bitAnd(x, y byte) byte {
	switch {
	case x == 'z' || y == 'z':
		return 'z'
	case x == 'o':
		return y
	case y == 'o':
		return x
	case x == y:
		return x
	case (x == 's' && y == 'n') || (x == 'n' && y == 's'):
		return 'z'
	}
	return '?' // path-dependent / unknown bit
}
