package rules

import (
	"fmt"
	"sort"
	"strings"

	"go/token"
	"go/types"
	"verif/internal/lanes"

	"golang.org/x/tools/go/ssa"

	"verif/internal/cong"
	"verif/internal/flow"
)

func init() {
	register(&RuleSet{
		Property:  "C04",
		Title:     "AVP boundaries are taken from the Length fields only",
		Run:       runC04,
		Technique: "value provenance of the walk cursor + exact linear/congruence-mod-4 abstract evaluation of the stride (all L ≥ 0), dominance of the length guards",
		Explanation: "Decides on the current source: R1 in every AVP walk loop (loops whose body decodes an AVP from a re-slice of the loop's buffer) the amount added to the cursor has the decoded AVP's wire Length field as its only non-constant origin — no call through AVP.Data, no (*AVP).Len — and equals round-up-to-4 of Length for all Length ≥ 0 (decided exactly in the domain K·L + T[L mod 4], helpers inlined); " +
			"R2 in the AVP decoder the Length field comes from bytes 5..7 of the input, and every path to the payload slice passed guards establishing header size ≤ Length ≤ len(data) with header size 8, or 12 exactly under the V-flag predicate, each failing guard returning a non-nil error; " +
			"R3 the bytes handed to datatype.Decode are exactly data[hdr:Length], with no type-dependent re-slicing; " +
			"R4 the walk loops hand the decoder b[n:] of the enclosing container (no longer slice), so R2's bound is the container's; " +
			"R5 a walk loop is left only through an error return or on the edge where the cursor has reached the end of the container, so no trailing bytes are skipped; " +
			"R6 in every function of the decode family the error edge of a nested decoding step (payload decoder, group walk, AVP decoder) never reaches a return with a nil error. " +
			"R6 an error returned by a nested decoding step (the AVP decoder, the grouped decoder, datatype.Decode) reaches the caller as an error: no nil-error return is reachable from its error edge, so a malformed member cannot be skipped silently. The decoder rules R2/R3 are decided on a symbolic model of the decoder (cursor and limits as affine forms over the wire Length and the input length, alternatives tagged by the V-flag predicate), so they hold across helper functions. " +
			"Given R1–R4 the framing is a function of the Length fields by construction. Not decided: comparison with a reference framer as executed behaviour.",
		Rules: map[string]string{
			"R1": "walk-loop stride: only origin is the decoded AVP's Length, equals round-up-4(Length) for all residues",
			"R2": "decoder: hdr ≤ Length ≤ len(data) established before the payload slice; failing guards return errors; hdr is 12 iff V",
			"R3": "payload given to datatype.Decode is data[:Length][hdr:]",
			"R4": "walk loops pass b[n:] of the loop-invariant container",
			"R5": "walk loops are left only with an error or when the cursor has reached the end of the container (no bytes skipped)",
			"R6": "errors of nested decoding steps propagate: no nil-error return is reachable from their error edge",
		},
		MinInstances: map[string]int{"R1": 1, "R2": 3, "R3": 1, "R4": 1, "R5": 1, "R6": 3},
		Assumptions:  []string{"integer overflow ignored for lengths < 2^24 (int is at least 32 bits)"},
	})
}

// avpDecodeFns: library functions returning *AVP first and taking a []byte first parameter.
func (c *Ctx) isAVPDecodeFn(g *ssa.Function) bool {
	if g == nil || !c.P.IsLibrary(g) || pkgOf(g).Path() != pkgDiam {
		return false
	}
	sig := g.Signature
	if sig.Results().Len() < 1 || sig.Params().Len() < 1 {
		return false
	}
	rp, ok := sig.Results().At(0).Type().(*types.Pointer)
	if !ok || !flow.TypeIs(rp.Elem(), pkgDiam, "AVP") {
		return false
	}
	sl, ok := sig.Params().At(0).Type().Underlying().(*types.Slice)
	return ok && types.Identical(sl.Elem(), types.Typ[types.Byte])
}

type walkLoop struct {
	fn        *ssa.Function
	loop      *flow.Loop
	call      *ssa.Call  // decode call
	avp       ssa.Value  // *AVP decoded in this iteration
	slice     *ssa.Slice // argument (nil when the slice is taken in a helper or the buffer is re-sliced)
	cursor    ssa.Value  // loop cursor (nil in the re-slicing form)
	container ssa.Value  // the bytes walked
	stride    ssa.Value  // amount added per iteration
	form      string
	// strideAVP: the AVP value the stride expression refers to when it lives in a re-slicing helper (that
	// helper's *AVP parameter, bound to avp at the call)
	strideAVP ssa.Value
	// strideLen: the helper's integer parameter that receives the decoded AVP's wire Length
	strideLen *ssa.Parameter
}

// avpDecodeCall classifies a call as "decodes one AVP from bytes": a library function of package diam that
// takes a []byte and either returns *AVP or is a method of *AVP (the decoder itself, or a wrapper of it).
// It returns the decoded AVP value and the index of the []byte argument.
func (c *Ctx) avpDecodeCall(call *ssa.Call) (ssa.Value, int, bool) {
	g := flow.StaticCallee(call)
	if g == nil || !c.P.IsLibrary(g) || pkgOf(g).Path() != pkgDiam || g.Blocks == nil {
		return nil, 0, false
	}
	bi := -1
	for i, p := range g.Params {
		if isByteSlice(p.Type()) && bi < 0 {
			bi = i
		}
	}
	if bi < 0 || bi >= len(call.Call.Args) {
		return nil, 0, false
	}
	sig := g.Signature
	if sig.Results().Len() >= 1 {
		if rp, ok := sig.Results().At(0).Type().(*types.Pointer); ok && flow.TypeIs(rp.Elem(), pkgDiam, "AVP") {
			var av ssa.Value = call
			for _, ref := range flow.Referrers(call) {
				if ex, ok := ref.(*ssa.Extract); ok && ex.Index == 0 {
					av = ex
				}
			}
			return av, bi, true
		}
	}
	if sig.Recv() != nil && flow.RecvTypeName(sig) == "AVP" {
		// the decoder method: stores the wire Length into its receiver (directly or through one wrapper)
		top, _, _ := c.avpDecoder()
		if g == top || c.reachesFunc(g, top, map[*ssa.Function]bool{}) {
			return call.Call.Args[0], bi, true
		}
	}
	return nil, 0, false
}

func (c *Ctx) walkLoops() ([]*walkLoop, []string) {
	var out []*walkLoop
	var problems []string
	for _, f := range c.P.LibraryFuncs() {
		if pkgOf(f).Path() != pkgDiam {
			continue
		}
		loops := flow.Loops(f)
		if len(loops) == 0 {
			continue
		}
		for _, ci := range flow.CallInstrs(f) {
			call, ok := ci.(*ssa.Call)
			if !ok {
				continue
			}
			av, bi, ok := c.avpDecodeCall(call)
			if !ok {
				continue
			}
			l := flow.InnermostLoop(loops, call)
			if l == nil {
				continue
			}
			w := &walkLoop{fn: f, loop: l, call: call, avp: av}
			arg := call.Call.Args[bi]
			for {
				// a named byte-slice type (datatype.Grouped) sliced and then converted is the same bytes
				if ct, ok := arg.(*ssa.ChangeType); ok && isByteSlice(ct.X.Type()) {
					arg = ct.X
					continue
				}
				break
			}
			headPhi := func(v ssa.Value) *ssa.Phi {
				ph, ok := v.(*ssa.Phi)
				if ok && ph.Block() == l.Head {
					return ph
				}
				return nil
			}
			var cur *ssa.Phi
			switch x := arg.(type) {
			case *ssa.Slice:
				w.slice, w.container = x, x.X
				cur = headPhi(x.Low)
				if cur == nil {
					problems = append(problems, fmt.Sprintf("%s: the low bound of the slice given to the AVP decoder is not a loop cursor", fname(f)))
					continue
				}
			case *ssa.Phi:
				// re-slicing form: the argument is the loop phi itself
				if ph := headPhi(x); ph != nil {
					for i, e := range ph.Edges {
						if l.Blocks[ph.Block().Preds[i]] {
							if rs, ok := e.(*ssa.Slice); ok && rs.X == ssa.Value(ph) && rs.High == nil {
								w.stride, w.form, w.container = rs.Low, "re-slicing b = b[k:]", ph
							}
							// b = rest(b, a): a helper that returns b[k:] of its byte parameter (or nil at the end)
							if hc, ok := e.(*ssa.Call); ok {
								h := flow.StaticCallee(hc)
								if h == nil || h.Blocks == nil || !c.P.IsLibrary(h) {
									continue
								}
								var hb, ha, hn *ssa.Parameter
								for j, a := range hc.Call.Args {
									if j >= len(h.Params) {
										continue
									}
									if a == ssa.Value(ph) {
										hb = h.Params[j]
									}
									if a == av {
										ha = h.Params[j]
									}
									// … or the helper is handed the decoded AVP's wire Length itself
									if u, isLd := flow.Peel(a).(*ssa.UnOp); isLd && u.Op == token.MUL {
										if tn, fld, base, ok := flow.FieldOf(u); ok && tn == "AVP" && fld == "Length" && base == av {
											hn = h.Params[j]
										}
									}
								}
								if hb == nil || (ha == nil && hn == nil) {
									continue
								}
								var low ssa.Value
								okShape := true
								for _, rv := range flow.ReturnValues(h, 0) {
									if flow.IsNilConst(rv) {
										continue
									}
									rs, isSl := rv.(*ssa.Slice)
									if !isSl || rs.X != ssa.Value(hb) || rs.High != nil || rs.Low == nil || low != nil && low != rs.Low {
										okShape = false
										continue
									}
									low = rs.Low
								}
								if okShape && low != nil {
									w.stride, w.form, w.container = low, "re-slicing through "+h.Name()+": b = b[k:]", ph
									if ha != nil {
										w.strideAVP = ha
									} else {
										w.strideLen = hn
									}
								}
							}
						}
					}
				}
			}
			if w.slice == nil && w.stride == nil {
				// the slice b[offset:] is taken inside the callee from the container and a cursor argument
				g := flow.StaticCallee(call)
				for i, a := range call.Call.Args {
					ph := headPhi(a)
					if ph == nil || i >= len(g.Params) {
						continue
					}
					gp, gb := g.Params[i], g.Params[bi]
					okSlice := false
					flow.Instrs(g, func(in ssa.Instruction) {
						if sl, ok := in.(*ssa.Slice); ok && sl.X == ssa.Value(gb) && sl.Low == ssa.Value(gp) && sl.High == nil && sl.Max == nil {
							for _, ref := range flow.Referrers(sl) {
								if cc, ok := ref.(*ssa.Call); ok {
									if _, _, isDec := c.avpDecodeCall(cc); isDec {
										okSlice = true
									}
								}
							}
						}
					})
					if okSlice {
						cur, w.container = ph, arg
					}
				}
				if cur == nil {
					problems = append(problems, fmt.Sprintf("%s: AVP decode call in a loop whose data argument is not a slice of the loop buffer", fname(f)))
					continue
				}
			}
			if cur != nil {
				w.cursor = cur
				// back-edge value
				for i, e := range cur.Edges {
					if !l.Blocks[cur.Block().Preds[i]] {
						continue
					}
					// n = next, with next a result of the decode helper itself: the helper adds the stride to the
					// cursor it was given (and may hand the cursor back unchanged together with an error)
					if ex, isEx := e.(*ssa.Extract); isEx && ex.Tuple == ssa.Value(call) {
						if k, sa, why := c.helperAdvance(call, ex.Index, cur); k != nil {
							w.stride, w.strideAVP, w.form = k, sa, "cursor n = next, next = n + k computed by "+flow.StaticCallee(call).Name()
						} else if why != "" {
							problems = append(problems, fmt.Sprintf("%s: %s", fname(f), why))
						}
						continue
					}
					bo, ok := e.(*ssa.BinOp)
					if !ok || bo.Op != token.ADD {
						problems = append(problems, fmt.Sprintf("%s: cursor is not advanced by an addition", fname(f)))
						continue
					}
					if bo.X == ssa.Value(cur) {
						w.stride = bo.Y
					} else if bo.Y == ssa.Value(cur) {
						w.stride = bo.X
					}
					w.form = "cursor n += k"
				}
			}
			if w.stride == nil {
				problems = append(problems, fmt.Sprintf("%s: cannot identify the cursor increment", fname(f)))
				continue
			}
			out = append(out, w)
		}
	}
	return out, problems
}

// helperAdvance: result idx of the decode helper called at call is the next cursor. Every return of the helper
// carries, in that result, either its cursor parameter plus one and the same amount k (returned with the AVP the
// amount refers to), or — only together with an error that is not the nil constant — the cursor unchanged.
func (c *Ctx) helperAdvance(call *ssa.Call, idx int, cur *ssa.Phi) (k ssa.Value, strideAVP ssa.Value, why string) {
	g := flow.StaticCallee(call)
	if g == nil || g.Blocks == nil {
		return nil, nil, ""
	}
	var gp *ssa.Parameter
	for i, a := range call.Call.Args {
		if a == ssa.Value(cur) && i < len(g.Params) {
			gp = g.Params[i]
		}
	}
	if gp == nil {
		return nil, nil, "the decode helper is not given the loop cursor it is said to advance"
	}
	nres := g.Signature.Results().Len()
	errIdx := -1
	if nres > 0 && isErrorType(g.Signature.Results().At(nres-1).Type()) {
		errIdx = nres - 1
	}
	for _, b := range g.Blocks {
		ret, ok := b.Instrs[len(b.Instrs)-1].(*ssa.Return)
		if !ok || b == g.Recover || len(ret.Results) <= idx {
			continue
		}
		v := ret.Results[idx]
		if v == ssa.Value(gp) {
			if errIdx < 0 || flow.IsNilConst(ret.Results[errIdx]) {
				return nil, nil, "the decode helper can hand back the cursor unchanged without an error"
			}
			continue
		}
		bo, ok := v.(*ssa.BinOp)
		if !ok || bo.Op != token.ADD {
			return nil, nil, "cursor is not advanced by an addition"
		}
		var kk ssa.Value
		switch {
		case bo.X == ssa.Value(gp):
			kk = bo.Y
		case bo.Y == ssa.Value(gp):
			kk = bo.X
		default:
			return nil, nil, "the next cursor the decode helper returns is not its cursor argument plus an amount"
		}
		if k != nil && k != kk {
			return nil, nil, "the decode helper advances the cursor by different amounts on different returns"
		}
		k, strideAVP = kk, ret.Results[0]
	}
	if k == nil {
		return nil, nil, "cannot identify the cursor increment"
	}
	return k, strideAVP, ""
}

func runC04(c *Ctx) {
	r := c.R
	walks, problems := c.walkLoops()
	for _, p := range problems {
		r.Undecided("R1", "walk-loop:"+p, "-", p)
	}
	for _, w := range walks {
		key := fname(w.fn) + ":cursor-increment"
		env := &cong.Env{
			MaxDepth: c.Depth,
			IsSym: func(v ssa.Value) bool {
				if w.strideLen != nil && v == ssa.Value(w.strideLen) {
					return true
				}
				u, ok := v.(*ssa.UnOp)
				if !ok || u.Op != token.MUL {
					return false
				}
				tn, fld, base, ok := flow.FieldOf(u)
				return ok && tn == "AVP" && fld == "Length" && (base == w.avp || w.strideAVP != nil && base == w.strideAVP)
			},
			Callee: func(call *ssa.Call) *ssa.Function {
				g := flow.StaticCallee(call)
				if g == nil || !c.P.InModule(pkgOf(g)) {
					return nil
				}
				// never follow methods of AVP / datatype implementors: they depend on the decoded value
				if g.Signature.Recv() != nil {
					return nil
				}
				return g
			},
		}
		val, err := env.Eval(w.stride)
		if err != nil {
			why := "the cursor increment is not a function of the decoded AVP's wire Length: " + err.Why
			if call, ok := err.Culprit.(*ssa.Call); ok {
				if o := flow.CalleeObj(call); o != nil {
					rn := flow.RecvTypeName(o.Type().(*types.Signature))
					if rn == "AVP" || call.Call.IsInvoke() {
						why = fmt.Sprintf("the cursor advances by %s, computed from the decoded value instead of the wire Length: when the payload size differs from what the data type serialises to, payload bytes are re-read as another AVP or bytes are skipped", short(call.String(), 60))
					}
				}
			}
			r.Fail("R1", key, c.pos(w.stride.(ssa.Instruction)), why)
			continue
		}
		if !val.IsRoundUp4() {
			r.Fail("R1", key, c.posV(w.stride), fmt.Sprintf("the cursor increment is %s as a function of the wire Length L; round-up-to-4 is 1*L+[0 3 2 1] — the walk lands off the next AVP for some residues", val))
			continue
		}
		r.Ok("R1", key, c.posV(w.stride), fmt.Sprintf("%s; increment = %s = round-up-4(Length) for all Length ≥ 0; only origin is the wire Length of the AVP decoded in this iteration", w.form, val))

		// R4
		key4 := fname(w.fn) + ":container-slice"
		switch {
		case w.slice != nil:
			good := w.slice.High == nil && w.slice.Max == nil
			baseInLoop := false
			if in, ok := w.slice.X.(ssa.Instruction); ok && w.loop.Blocks[in.Block()] {
				baseInLoop = true
			}
			r.Check(good && !baseInLoop, "R4", key4, c.pos(w.slice), "decoder receives b[n:] of the loop-invariant container", "the decoder is given something other than the rest of the enclosing container (b[n:])")
		case w.cursor != nil:
			baseInLoop := false
			if in, ok := w.container.(ssa.Instruction); ok && w.loop.Blocks[in.Block()] {
				baseInLoop = true
			}
			r.Check(!baseInLoop, "R4", key4, c.pos(w.call), "decoder helper receives the loop-invariant container and the cursor and takes b[n:] itself", "the container handed to the decode helper changes inside the loop")
		default:
			r.Ok("R4", key4, c.pos(w.call), "re-slicing form: decoder receives the remaining container")
		}
		c.c04WalkExit(w)
	}
	// both levels are covered: the top-level AVPs of a message and the members of a group are decoded by a
	// walk examined above (one shared walk function is as good as two)
	for _, lvl := range []struct{ name, pkg, fn string }{{"message-level", "diam", "ReadMessage"}, {"group-level", "diam", "DecodeGrouped"}} {
		root := c.P.Func(lvl.pkg, lvl.fn)
		key := "walk-coverage:" + lvl.name
		if root == nil {
			r.Undecided("R1", key, "-", lvl.fn+" not found")
			continue
		}
		reach := c.reach([]*ssa.Function{root}, false, false, false)
		found := ""
		for _, w := range walks {
			if reach[w.fn] {
				found = fname(w.fn)
			}
		}
		r.Check(found != "", "R1", key, c.fpos(root), lvl.fn+" decodes its AVPs through the walk in "+found, "no examined walk loop is reachable from "+lvl.fn+": the "+lvl.name+" AVPs are framed by code this check did not look at")
	}
	c.c04Decoder()
	c.c04ErrorsPropagate(walks)
}

// c04ErrorsPropagate: R6 — a framing error found while decoding a nested level is an error of every
// enclosing level. In every function of the AVP decode family, a call of another family function (or of the
// payload decoder) that reports an error is never followed, from its error edge, by a return with a nil
// error; the error is either tested or handed on as the function's own result.
func (c *Ctx) c04ErrorsPropagate(walks []*walkLoop) {
	r := c.R
	fam := map[*ssa.Function]bool{}
	if top, _, _ := c.avpDecoder(); top != nil {
		fam[top] = true
	}
	for _, w := range walks {
		fam[w.fn] = true
		if g := flow.StaticCallee(w.call); g != nil {
			fam[g] = true
		}
	}
	// close under "calls a family member and returns an error" within package diam
	for changed := true; changed; {
		changed = false
		for _, f := range c.P.LibraryFuncs() {
			if fam[f] || pkgOf(f).Path() != pkgDiam || f.Signature.Results().Len() == 0 || !isErrorType(f.Signature.Results().At(f.Signature.Results().Len()-1).Type()) {
				continue
			}
			if byteParam(f) == nil && !(f.Signature.Recv() != nil && flow.RecvTypeName(f.Signature) == "AVP") {
				continue
			}
			for _, ci := range flow.CallInstrs(f) {
				if g := flow.StaticCallee(ci); g != nil && fam[g] {
					fam[f] = true
					changed = true
				}
			}
		}
	}
	var fs []*ssa.Function
	for f := range fam {
		fs = append(fs, f)
	}
	sort.Slice(fs, func(i, j int) bool { return fname(fs[i]) < fname(fs[j]) })
	for _, f := range fs {
		for _, ci := range flow.CallInstrs(f) {
			call, ok := ci.(*ssa.Call)
			if !ok {
				continue
			}
			g := flow.StaticCallee(call)
			isDec := g != nil && fam[g]
			if flow.IsCallTo(call, pkgDatatype, "", "Decode") {
				isDec = true
			}
			ev := errorResult(call)
			if !isDec || ev == nil {
				continue
			}
			key := fmt.Sprintf("%s:error-of-%s", fname(f), calleeLabel(call))
			bad := ""
			var at ssa.Instruction = call
			flow.Instrs(f, func(in ssa.Instruction) {
				ret, ok := in.(*ssa.Return)
				if !ok || bad != "" || len(ret.Results) == 0 {
					return
				}
				// handed on as is
				for _, s := range flow.SpillSources(ret.Results[len(ret.Results)-1]) {
					if s == ev {
						return
					}
				}
				if !mayReturnNilError(ret) {
					return
				}
				if p := pathFromErrEdge(f, call, ret); p != nil {
					bad, at = "after a nested decoding step failed the function can still return without an error: malformed framing inside is accepted (the AVP is kept undecoded or partly decoded)", ret
				}
			})
			if bad == "" && len(errorEdgeBlocks(call)) == 0 {
				handed := false
				flow.Instrs(f, func(in ssa.Instruction) {
					if ret, ok := in.(*ssa.Return); ok && len(ret.Results) > 0 {
						for _, s := range flow.SpillSources(ret.Results[len(ret.Results)-1]) {
							if s == ev {
								handed = true
							}
						}
					}
				})
				if !handed {
					bad = "the error of a nested decoding step is neither tested nor returned"
				}
			}
			r.Check(bad == "", "R6", key, c.pos(at), "the nested step's error edge always leads to an error return", bad)
		}
	}
}

func (c *Ctx) posV(v ssa.Value) string {
	if in, ok := v.(ssa.Instruction); ok {
		return c.pos(in)
	}
	return "-"
}

// c04Decoder checks R2/R3 in the function(s) that store a wire-derived value to AVP.Length.
func (c *Ctx) c04Decoder() {
	r := c.R
	n := 0
	for _, f := range c.P.LibraryFuncs() {
		if pkgOf(f).Path() != pkgDiam || len(f.Params) < 2 {
			continue
		}
		var lenStore *ssa.Store
		flow.Instrs(f, func(in ssa.Instruction) {
			if st, ok := in.(*ssa.Store); ok {
				if tn, fld, _, ok := flow.FieldOf(st.Addr); ok && tn == "AVP" && fld == "Length" {
					lenStore = st
				}
			}
		})
		if lenStore == nil {
			continue
		}
		// data parameter
		var data *ssa.Parameter
		for _, p := range f.Params {
			if sl, ok := p.Type().Underlying().(*types.Slice); ok && types.Identical(sl.Elem(), types.Typ[types.Byte]) {
				data = p
			}
		}
		if data == nil {
			continue
		}
		n++
		c.c04DecoderFn(f, data, lenStore)
	}
	if n == 0 {
		r.Undecided("R2", "role:avp-decoder", "-", "no function storing a wire-derived AVP.Length found")
	}
}

func (c *Ctx) c04DecoderFn(f *ssa.Function, data *ssa.Parameter, lenStore *ssa.Store) {
	r := c.R
	// R2a: every store to AVP.Length in the decoder is the big-endian integer of data[5:8]
	key := fname(f) + ":length-from-bytes-5..7"
	rd := &lanes.Reader{
		IsBase:   func(v ssa.Value) bool { return v == ssa.Value(data) },
		MaxDepth: 3,
		Callee: func(call *ssa.Call) *ssa.Function {
			g := flow.StaticCallee(call)
			if g == nil || !c.P.InModule(pkgOf(g)) {
				return nil
			}
			return g
		},
	}
	var wire *ssa.Store
	flow.Instrs(f, func(in ssa.Instruction) {
		st, ok := in.(*ssa.Store)
		if !ok {
			return
		}
		if tn, fld, _, ok := flow.FieldOf(st.Addr); !ok || tn != "AVP" || fld != "Length" {
			return
		}
		w := rd.Eval(st.Val)
		if w.IsBigEndianOf(5, 8) {
			if wire == nil {
				wire = st
				r.Ok("R2", key, c.pos(st), "AVP.Length = big-endian integer of data[5:8] (lanes "+w.String()+")")
			}
			return
		}
		k2 := key
		if wire != nil {
			k2 = fname(f) + ":length-overwritten"
		}
		r.Fail("R2", k2, c.pos(st), "AVP.Length is assigned a value that is not the 24-bit big-endian integer at bytes 5..7 of the AVP header (byte lanes "+w.String()+"; expected [d[5] d[6] d[7]]): boundaries no longer follow the declared length")
	})
	if wire == nil {
		return
	}
	lenStore = wire

	// when the header is parsed by an unexported helper that receives the decoder's own bytes, the decoder
	// proper is the caller: lift to it (the symbolic engine follows the helper through its parameters)
	f, data = c.liftDecoder(f, data)

	// ---- symbolic evaluation of the bytes given to datatype.Decode ----
	e := c.newAVPSym(f, data, lenStore.Val)
	// the decode call: in the decoder or in a helper it calls (same package)
	var uses []ssa.CallInstruction
	fam := map[*ssa.Function]bool{f: true}
	work := []*ssa.Function{f}
	for len(work) > 0 {
		g := work[0]
		work = work[1:]
		for _, ci := range flow.CallInstrs(g) {
			if flow.IsCallTo(ci, pkgDatatype, "", "Decode") {
				uses = append(uses, ci)
			}
			h := flow.StaticCallee(ci)
			isAVPMethod := h != nil && h.Signature.Recv() != nil && flow.RecvTypeName(h.Signature) == "AVP"
			isPayloadHelper := h != nil && h.Signature.Recv() == nil && byteParam(h) != nil && (h.Object() == nil || !h.Object().Exported())
			if h != nil && h.Blocks != nil && c.P.IsLibrary(h) && pkgOf(h).Path() == pkgDiam && !fam[h] && (isAVPMethod || isPayloadHelper) && !c.isAVPDecodeFn(h) {
				fam[h] = true
				work = append(work, h)
			}
		}
	}
	if len(uses) == 0 {
		r.Fail("R3", fname(f)+":payload", c.fpos(f), "the AVP decoder never hands a payload to datatype.Decode")
		return
	}
	for ui, use := range uses {
		sfx := ""
		if ui > 0 {
			sfx = fmt.Sprintf("#%d", ui+1)
		}
		alts := e.slices(use.Common().Args[1], 0)
		if alts == nil {
			r.Undecided("R3", fname(f)+":decode-arg"+sfx, c.pos(use), "cannot express the bytes given to datatype.Decode as a window of the decoder's input ("+strings.Join(e.unk, "; ")+")")
			continue
		}
		// R3: window = [hdr, L) with hdr 12 under V and 8 otherwise
		good, why := true, ""
		seen := map[string]bool{}
		for _, al := range alts {
			wantLo := int64(8)
			if al.tag == "V" {
				wantLo = 12
			}
			switch {
			case al.tag == "":
				good, why = false, fmt.Sprintf("the payload window [%s, %s) is not selected by the V-flag predicate", al.lo, al.hi)
			case al.hi != (lin{l: 1}):
				good, why = false, fmt.Sprintf("the payload given to datatype.Decode ends at %s instead of the declared Length: bytes beyond the AVP's declared end (padding, the next AVP) are decoded as payload, or payload is cut", al.hi)
			case al.lo != (lin{k: wantLo}):
				good, why = false, fmt.Sprintf("under %s the payload starts at offset %s instead of %d", al.tag, al.lo, wantLo)
			}
			seen[al.tag] = true
		}
		if good && !(seen["V"] && seen["noV"]) {
			good, why = false, "the decoder does not distinguish 8- and 12-byte AVP headers by the V flag"
		}
		r.Check(good, "R3", fname(f)+":decode-arg"+sfx, c.pos(use), "datatype.Decode receives exactly data[hdr:Length], hdr = 12 under the V flag and 8 otherwise", "the bytes given to datatype.Decode are not exactly data[hdr:Length]: "+why)
		if !good {
			continue
		}
		// R2: on every path to the use, Length ≤ len(data) and hdr ≤ Length hold because violating edges
		// return errors
		reqs := []struct {
			key, tag string
			req      lin
			what     string
		}{
			{"Length<=len(data)", "V", lin{n: 1, l: -1}, "a declared length longer than the container is accepted / panics"},
			{"Length<=len(data)", "noV", lin{n: 1, l: -1}, "a declared length longer than the container is accepted / panics"},
			{"hdr12<=Length", "V", lin{l: 1, k: -12}, "a declared length shorter than the 12-byte vendor header panics or mis-frames"},
			{"hdr8<=Length", "noV", lin{l: 1, k: -8}, "a declared length shorter than the 8-byte AVP header panics or mis-frames"},
		}
		done := map[string]bool{}
		for _, q := range reqs {
			key := fname(f) + ":" + q.key + sfx
			ok, desc := e.holdsAt(use, q.req, q.tag, 0)
			if !ok {
				if !done[key+"!"] {
					r.Fail("R2", key, c.pos(use), fmt.Sprintf("no guard with an error-returning failing edge establishes %s ≥ 0 (tag %s) before the payload is decoded: %s", q.req, q.tag, q.what))
					done[key+"!"] = true
				}
				continue
			}
			if !done[key] && !done[key+"!"] {
				r.Ok("R2", key, c.pos(use), "established by the guard "+desc+" whose failing edge returns an error")
				done[key] = true
			}
		}
	}
}

// returnsNonNilError: every path from the first instruction of blk to a Return has a non-nil
// error operand (last result).
func returnsNonNilError(blk *ssa.BasicBlock) bool {
	f := blk.Parent()
	bad := false
	seen := map[*ssa.BasicBlock]bool{}
	var visit func(b *ssa.BasicBlock)
	visit = func(b *ssa.BasicBlock) {
		if seen[b] || bad {
			return
		}
		seen[b] = true
		last := b.Instrs[len(b.Instrs)-1]
		if ret, ok := last.(*ssa.Return); ok {
			if len(ret.Results) == 0 {
				bad = true
				return
			}
			e := ret.Results[len(ret.Results)-1]
			for _, src := range flow.SpillSources(e) {
				if flow.IsNilConst(src) {
					bad = true
				}
			}
			return
		}
		if _, ok := last.(*ssa.Panic); ok {
			bad = true
			return
		}
		for _, s := range b.Succs {
			visit(s)
		}
	}
	visit(blk)
	_ = f
	return !bad && len(seen) < 6 // the error edge must lead straight to the return
}

// findLenGuard: a guard dominating `at` on its passing edge, of the form len(sl) < X / X > len(sl)
// (failing edge = condition true) where isX(X); the failing edge must return a non-nil error.
func (c *Ctx) findLenGuard(f *ssa.Function, at ssa.Instruction, sl ssa.Value, isX func(ssa.Value) bool, _ bool) string {
	for _, g := range flow.Guards(at) {
		cond, neg := flow.Cond(g.If.Cond, g.Taken)
		bo, ok := cond.(*ssa.BinOp)
		if !ok {
			continue
		}
		lenOf := func(v ssa.Value) bool {
			call, ok := v.(*ssa.Call)
			if !ok {
				return false
			}
			b, ok := call.Call.Value.(*ssa.Builtin)
			return ok && b.Name() == "len" && call.Call.Args[0] == sl
		}
		// failing condition F: len < X, X > len ; passing: !(F) i.e. len >= X
		var failingWhenTrue bool
		switch {
		case lenOf(bo.X) && isX(bo.Y) && bo.Op == token.LSS:
			failingWhenTrue = true
		case isX(bo.X) && lenOf(bo.Y) && bo.Op == token.GTR:
			failingWhenTrue = true
		case lenOf(bo.X) && isX(bo.Y) && bo.Op == token.GEQ:
			failingWhenTrue = false
		case isX(bo.X) && lenOf(bo.Y) && bo.Op == token.LEQ:
			failingWhenTrue = false
		default:
			continue
		}
		// `at` must be on the passing edge
		onTrueEdge := !neg
		if failingWhenTrue == onTrueEdge {
			continue
		}
		failIdx := 0
		if !failingWhenTrue {
			failIdx = 1
		}
		if !returnsNonNilError(g.If.Block().Succs[failIdx]) {
			continue
		}
		return short(cond.String(), 40)
	}
	return ""
}

// findConstLenGuard: guard len(sl) < K (K >= need) whose failing edge returns an error.
func (c *Ctx) findConstLenGuard(f *ssa.Function, at ssa.Instruction, sl ssa.Value, need int64) string {
	return c.findLenGuard(f, at, sl, func(v ssa.Value) bool {
		k, ok := flow.ConstInt(v)
		return ok && k >= need
	}, true)
}

// c04WalkExit: R5 — a walk loop may only be left (a) through an error return or (b) on the edge
// where the cursor has reached the end of the container (n >= len(b), or len(b) == 0 in the
// re-slicing form). Leaving while bytes remain silently skips them.
func (c *Ctx) c04WalkExit(w *walkLoop) {
	r := c.R
	key := fname(w.fn) + ":walk-exit"
	var cursor ssa.Value
	var container ssa.Value
	if w.cursor != nil {
		cursor, container = w.cursor, w.container
	} else {
		container = w.container // the loop phi itself
	}
	n := 0
	for b := range w.loop.Blocks {
		for si, s := range b.Succs {
			if w.loop.Blocks[s] {
				continue
			}
			n++
			// exit edge b -> s
			if returnsNonNilError(s) {
				continue
			}
			ifi, ok := b.Instrs[len(b.Instrs)-1].(*ssa.If)
			if !ok {
				r.Fail("R5", key, c.pos(b.Instrs[len(b.Instrs)-1]), "the walk loop is left unconditionally without an error while bytes may remain")
				return
			}
			rl, ok := condRel(ifi.Cond, si == 0)
			good := false
			if ok {
				if cursor != nil {
					// n >= len(container)  /  len(container) <= n
					if sameVal(rl.a, cursor) && rl.op == token.GEQ {
						if x, isLen := builtinOf(rl.b, "len"); isLen && sameVal(x, container) {
							good = true
						}
					}
					if sameVal(rl.b, cursor) && rl.op == token.LEQ {
						if x, isLen := builtinOf(rl.a, "len"); isLen && sameVal(x, container) {
							good = true
						}
					}
				} else {
					// len(b) <= 0, len(b) == 0, !(len(b) > 0)
					if x, isLen := builtinOf(rl.a, "len"); isLen && sameVal(x, container) && isZeroConst(rl.b) && (rl.op == token.LEQ || rl.op == token.EQL) {
						good = true
					}
				}
			}
			if !good {
				r.Fail("R5", key, c.pos(ifi), fmt.Sprintf("the walk loop can be left without an error on the edge %s=%v, which does not mean that the cursor reached the end of the container: trailing bytes (e.g. a fragment shorter than an AVP header) are skipped silently instead of being rejected", short(ifi.Cond.String(), 40), si == 0))
				return
			}
		}
	}
	if n == 0 {
		r.Undecided("R5", key, c.pos(w.call), "walk loop has no exit edge")
		return
	}
	r.Ok("R5", key, c.pos(w.call), fmt.Sprintf("%d exit edges: error returns, or the cursor reached len(container)", n))
}

// avpDecoder: the function that stores the wire-derived Length into an AVP, its input bytes and that value.
func (c *Ctx) avpDecoder() (*ssa.Function, *ssa.Parameter, ssa.Value) {
	for _, f := range c.P.LibraryFuncs() {
		if pkgOf(f).Path() != pkgDiam || len(f.Params) < 2 {
			continue
		}
		data := byteParam(f)
		if data == nil {
			continue
		}
		var wire ssa.Value
		rd := &lanes.Reader{
			IsBase:   func(v ssa.Value) bool { return v == ssa.Value(data) },
			MaxDepth: 3,
			Callee:   c.laneCallee,
		}
		flow.Instrs(f, func(in ssa.Instruction) {
			if st, ok := in.(*ssa.Store); ok {
				if tn, fld, _, ok := flow.FieldOf(st.Addr); ok && tn == "AVP" && fld == "Length" && rd.Eval(st.Val).IsBigEndianOf(5, 8) {
					wire = st.Val
				}
			}
		})
		if wire != nil {
			f, data = c.liftDecoder(f, data)
			return f, data, wire
		}
	}
	return nil, nil, nil
}

// liftDecoder: f parses the AVP header out of its byte parameter. If f is an unexported helper with a single
// library call site whose caller hands it its own byte parameter from offset 0, the caller is the decoder.
func (c *Ctx) liftDecoder(f *ssa.Function, data *ssa.Parameter) (*ssa.Function, *ssa.Parameter) {
	for i := 0; i < 2; i++ {
		cs := c.uniqueSite(f)
		if cs == nil {
			break
		}
		g := cs.Parent()
		gd := byteParam(g)
		if gd == nil || pkgOf(g).Path() != pkgDiam {
			break
		}
		idx := paramIndex(f, data)
		if idx >= len(cs.Common().Args) {
			break
		}
		a := cs.Common().Args[idx]
		ok := a == ssa.Value(gd)
		if sl, isSl := a.(*ssa.Slice); isSl && sl.Low == nil && sl.X == ssa.Value(gd) {
			ok = true
		}
		if !ok {
			break
		}
		f, data = g, gd
	}
	return f, data
}
