// Package flow holds the SSA helpers shared by the rules: callee resolution, instruction-level
// dominance and path queries (engine E2), value origins and access paths (engine E4).
package flow

import (
	"fmt"
	"go/constant"
	"go/token"
	"go/types"
	"strings"

	"golang.org/x/tools/go/ssa"
)

// ---------- callee resolution ----------

// StaticCallee returns the statically known callee (function, method, or closure literal).
func StaticCallee(c ssa.CallInstruction) *ssa.Function {
	com := c.Common()
	if com.IsInvoke() {
		return nil
	}
	switch v := com.Value.(type) {
	case *ssa.Function:
		return v
	case *ssa.MakeClosure:
		return v.Fn.(*ssa.Function)
	}
	return nil
}

// CalleeObj returns the types.Func called (static call or interface method), or nil for
// calls of func values.
func CalleeObj(c ssa.CallInstruction) *types.Func {
	com := c.Common()
	if com.IsInvoke() {
		return com.Method
	}
	if f := StaticCallee(c); f != nil {
		if o, ok := f.Object().(*types.Func); ok {
			return o
		}
		// bound method closure / thunk
		if f.Synthetic != "" && strings.HasSuffix(f.Name(), "$bound") {
			// the bound function's single call is the method
			for _, b := range f.Blocks {
				for _, in := range b.Instrs {
					if ci, ok := in.(ssa.CallInstruction); ok {
						return CalleeObj(ci)
					}
				}
			}
		}
	}
	return nil
}

// IsCallTo reports whether c calls the function/method with the given package path and name.
// For methods recv is the receiver's named type name (without pointer), "" for functions.
func IsCallTo(c ssa.CallInstruction, pkgPath, recv, name string) bool {
	return IsFuncObj(CalleeObj(c), pkgPath, recv, name)
}

// IsFuncObj matches a *types.Func against (pkgPath, recv, name).
func IsFuncObj(o *types.Func, pkgPath, recv, name string) bool {
	if o == nil || o.Name() != name {
		return false
	}
	if o.Pkg() == nil || o.Pkg().Path() != pkgPath {
		return false
	}
	sig := o.Type().(*types.Signature)
	if sig.Recv() == nil {
		return recv == ""
	}
	return RecvTypeName(sig) == recv
}

// RecvTypeName returns the receiver's named type name ("" if none).
func RecvTypeName(sig *types.Signature) string {
	if sig.Recv() == nil {
		return ""
	}
	t := sig.Recv().Type()
	if p, ok := t.(*types.Pointer); ok {
		t = p.Elem()
	}
	if n, ok := t.(*types.Named); ok {
		return n.Obj().Name()
	}
	return ""
}

// CallInstrs lists all call-like instructions (Call, Go, Defer) of f.
func CallInstrs(f *ssa.Function) []ssa.CallInstruction {
	var out []ssa.CallInstruction
	for _, b := range f.Blocks {
		for _, in := range b.Instrs {
			if c, ok := in.(ssa.CallInstruction); ok {
				out = append(out, c)
			}
		}
	}
	return out
}

// Instrs iterates all instructions of f.
func Instrs(f *ssa.Function, fn func(ssa.Instruction)) {
	for _, b := range f.Blocks {
		for _, in := range b.Instrs {
			fn(in)
		}
	}
}

// ---------- positions in a function ----------

// Index returns the index of in within its block.
func Index(in ssa.Instruction) int {
	for i, x := range in.Block().Instrs {
		if x == in {
			return i
		}
	}
	return -1
}

// Dominates reports whether instruction a executes before b on every path reaching b.
func Dominates(a, b ssa.Instruction) bool {
	if a.Block() == b.Block() {
		return Index(a) < Index(b)
	}
	return a.Block().Dominates(b.Block())
}

// EdgeDominates reports whether every path to block x passes the CFG edge from->from.Succs[i].
func EdgeDominates(from *ssa.BasicBlock, i int, x *ssa.BasicBlock) bool {
	s := from.Succs[i]
	if !s.Dominates(x) {
		return false
	}
	// both successors identical: edge carries no information
	if len(from.Succs) == 2 && from.Succs[0] == from.Succs[1] {
		return false
	}
	for _, p := range s.Preds {
		if p == from {
			continue
		}
		// other predecessors must be dominated by s (back edges) for the edge to dominate s
		if !s.Dominates(p) {
			return false
		}
	}
	return true
}

// Guard describes a conditional edge that dominates an instruction.
type Guard struct {
	If    *ssa.If
	Taken bool // true edge (Succs[0]) or false edge (Succs[1])
}

// Guards returns every conditional edge that dominates instruction in (innermost last).
func Guards(in ssa.Instruction) []Guard {
	var out []Guard
	x := in.Block()
	for _, b := range in.Parent().Blocks {
		if len(b.Instrs) == 0 {
			continue
		}
		ifi, ok := b.Instrs[len(b.Instrs)-1].(*ssa.If)
		if !ok {
			continue
		}
		if EdgeDominates(b, 0, x) {
			out = append(out, Guard{ifi, true})
		}
		if EdgeDominates(b, 1, x) {
			out = append(out, Guard{ifi, false})
		}
	}
	return out
}

// Cond normalises a boolean condition: peels negations, returning the BinOp (or other value)
// and whether it is negated.
func Cond(v ssa.Value, taken bool) (ssa.Value, bool) {
	neg := !taken
	for {
		if u, ok := v.(*ssa.UnOp); ok && u.Op == token.NOT {
			v = u.X
			neg = !neg
			continue
		}
		break
	}
	return v, neg
}

// ---------- path queries (instruction granularity) ----------

// next returns the successor instructions of in.
func next(in ssa.Instruction) []ssa.Instruction {
	b := in.Block()
	i := Index(in)
	if i+1 < len(b.Instrs) {
		return []ssa.Instruction{b.Instrs[i+1]}
	}
	var out []ssa.Instruction
	for _, s := range b.Succs {
		if len(s.Instrs) > 0 {
			out = append(out, s.Instrs[0])
		}
	}
	return out
}

// PathAvoiding searches a path that starts right after `from` (or at the function entry when
// from is nil), reaches an instruction satisfying target, and passes no instruction satisfying
// avoid (the target itself is not tested against avoid). It returns the witness path or nil.
func PathAvoiding(f *ssa.Function, from ssa.Instruction, target, avoid func(ssa.Instruction) bool) []ssa.Instruction {
	// A condition value that several branches of f test is remembered along the path: once a path has taken the
	// true (false) edge of `if c`, a later `if c` on that path only continues on the same edge — until the path
	// passes the instruction that computes c again (a new iteration). dec holds two bits per such condition.
	// conditions are identified structurally: the same value, or the same comparison of the same two operands
	// (x != nil written twice is two instructions but one condition)
	condKey := func(c ssa.Value) string {
		opnd := func(v ssa.Value) string {
			if k, ok := v.(*ssa.Const); ok {
				return "k:" + k.String()
			}
			return fmt.Sprintf("%p", v)
		}
		if bo, ok := c.(*ssa.BinOp); ok {
			switch bo.Op {
			case token.EQL, token.NEQ, token.LSS, token.LEQ, token.GTR, token.GEQ:
				return bo.Op.String() + "(" + opnd(bo.X) + "," + opnd(bo.Y) + ")"
			}
		}
		return opnd(c)
	}
	keyIdx := map[string]uint{}
	clears := map[ssa.Value][]uint{} // executing this value again invalidates these conditions
	{
		uses := map[string]int{}
		for _, b := range f.Blocks {
			if len(b.Instrs) == 0 {
				continue
			}
			if ifi, ok := b.Instrs[len(b.Instrs)-1].(*ssa.If); ok {
				c, _ := Cond(ifi.Cond, true)
				if _, isK := c.(*ssa.Const); !isK {
					uses[condKey(c)]++
				}
			}
		}
		for _, b := range f.Blocks {
			if len(b.Instrs) == 0 {
				continue
			}
			if ifi, ok := b.Instrs[len(b.Instrs)-1].(*ssa.If); ok {
				c, _ := Cond(ifi.Cond, true)
				k := condKey(c)
				if _, seen := keyIdx[k]; !seen && uses[k] >= 2 && len(keyIdx) < 30 {
					i := uint(len(keyIdx))
					keyIdx[k] = i
					if bo, ok := c.(*ssa.BinOp); ok && k != fmt.Sprintf("%p", c) {
						clears[bo.X] = append(clears[bo.X], i)
						clears[bo.Y] = append(clears[bo.Y], i)
					} else {
						clears[c] = append(clears[c], i)
					}
				}
			}
		}
	}
	condIdx := func(c ssa.Value) (uint, bool) {
		k, ok := keyIdx[condKey(c)]
		return k, ok
	}
	setDec := func(dec uint64, c ssa.Value, val bool) uint64 {
		k, ok := condIdx(c)
		if !ok {
			return dec
		}
		dec &^= 3 << (2 * k)
		if val {
			return dec | 1<<(2*k)
		}
		return dec | 2<<(2*k)
	}
	getDec := func(dec uint64, c ssa.Value) (known, val bool) {
		k, ok := condIdx(c)
		if !ok {
			return false, false
		}
		switch (dec >> (2 * k)) & 3 {
		case 1:
			return true, true
		case 2:
			return true, false
		}
		return false, false
	}
	type pstate struct {
		in   ssa.Instruction
		pred *ssa.BasicBlock // set while inside a phi-test block entered from pred (jump threading)
		dec  uint64
	}
	var start []pstate
	if from == nil {
		if len(f.Blocks) == 0 || len(f.Blocks[0].Instrs) == 0 {
			return nil
		}
		start = []pstate{{f.Blocks[0].Instrs[0], nil, 0}}
	} else {
		// what the branches dominating the starting point have established
		var dec0 uint64
		if len(keyIdx) > 0 {
			for _, g := range Guards(from) {
				c, neg := Cond(g.If.Cond, g.Taken)
				if def, ok := c.(ssa.Instruction); ok && def.Block() == from.Block() && Index(def) > Index(from) {
					continue
				}
				dec0 = setDec(dec0, c, !neg)
			}
		}
		for _, n := range next(from) {
			var pred *ssa.BasicBlock
			if n.Block() != from.Block() && isTestBlock(n.Block()) {
				pred = from.Block()
			}
			d := dec0
			if n.Block() != from.Block() {
				// leaving from's block through its branch: that decision counts too
				if ifi, ok := from.(*ssa.If); ok {
					c, neg := Cond(ifi.Cond, true)
					taken := from.Block().Succs[0] == n.Block()
					if from.Block().Succs[0] != from.Block().Succs[1] {
						d = setDec(d, c, taken != neg)
					}
				}
			}
			start = append(start, pstate{n, pred, d})
		}
	}
	prev := map[pstate]*pstate{}
	seen := map[pstate]bool{}
	queue := []pstate{}
	for _, s := range start {
		if !seen[s] {
			seen[s] = true
			queue = append(queue, s)
		}
	}
	for len(queue) > 0 {
		st := queue[0]
		queue = queue[1:]
		in := st.in
		if target(in) {
			var path []ssa.Instruction
			for x := &st; x != nil; x = prev[*x] {
				path = append([]ssa.Instruction{x.in}, path...)
			}
			return path
		}
		if avoid != nil && avoid(in) {
			continue
		}
		dec := st.dec
		// the value is computed anew here: what an earlier branch found out about it no longer holds
		if v, ok := in.(ssa.Value); ok {
			for _, k := range clears[v] {
				dec &^= 3 << (2 * k)
			}
		}
		var succ []pstate
		b := in.Block()
		if i := Index(in); i+1 < len(b.Instrs) {
			succ = []pstate{{b.Instrs[i+1], st.pred, dec}}
		} else {
			targets := b.Succs
			ifi, isIf := in.(*ssa.If)
			if isIf && st.pred != nil {
				targets = feasibleSuccs(ifi, st.pred)
			}
			for _, s := range targets {
				if len(s.Instrs) == 0 {
					continue
				}
				d := dec
				if isIf && len(b.Succs) == 2 && b.Succs[0] != b.Succs[1] {
					c, neg := Cond(ifi.Cond, true)
					taken := s == b.Succs[0]
					val := taken != neg
					if known, kv := getDec(dec, c); known && kv != val {
						continue // contradicts what this path already established
					}
					d = setDec(d, c, val)
				}
				var pred *ssa.BasicBlock
				if isTestBlock(s) {
					pred = b
				}
				succ = append(succ, pstate{s.Instrs[0], pred, d})
			}
		}
		for _, n := range succ {
			if !seen[n] {
				seen[n] = true
				cp := st
				prev[n] = &cp
				queue = append(queue, n)
			}
		}
	}
	return nil
}

// isTestBlock: a join block that only merges values and branches on them (phis, pure operators, If).
func isTestBlock(b *ssa.BasicBlock) bool {
	if len(b.Preds) < 2 || len(b.Instrs) == 0 {
		return false
	}
	if _, ok := b.Instrs[len(b.Instrs)-1].(*ssa.If); !ok {
		return false
	}
	hasPhi := false
	for _, in := range b.Instrs[:len(b.Instrs)-1] {
		switch in.(type) {
		case *ssa.Phi:
			hasPhi = true
		case *ssa.BinOp, *ssa.UnOp, *ssa.DebugRef:
			if u, ok := in.(*ssa.UnOp); ok && u.Op != token.NOT {
				return false
			}
		default:
			return false
		}
	}
	return hasPhi
}

// feasibleSuccs: the successors of the test block's If that can be taken when the block was entered from
// pred — the tested phi has a known outcome for that incoming edge (jump threading). Unknown → both.
func feasibleSuccs(ifi *ssa.If, pred *ssa.BasicBlock) []*ssa.BasicBlock {
	b := ifi.Block()
	idx := -1
	for i, p := range b.Preds {
		if p == pred {
			if idx >= 0 {
				return b.Succs
			}
			idx = i
		}
	}
	if idx < 0 {
		return b.Succs
	}
	cond, neg := Cond(ifi.Cond, true)
	incoming := func(v ssa.Value) (ssa.Value, bool) {
		ph, ok := v.(*ssa.Phi)
		if !ok || ph.Block() != b {
			return nil, false
		}
		return ph.Edges[idx], true
	}
	known, val := false, false
	if v, ok := incoming(cond); ok {
		if k, isK := v.(*ssa.Const); isK && k.Value != nil && k.Value.Kind() == constant.Bool {
			known, val = true, constant.BoolVal(k.Value)
		}
	} else if bo, ok := cond.(*ssa.BinOp); ok && (bo.Op == token.EQL || bo.Op == token.NEQ) && bo.Block() == b {
		x, y := bo.X, bo.Y
		if _, isPhi := incoming(y); isPhi {
			x, y = y, x
		}
		if v, isPhi := incoming(x); isPhi {
			eq, dec := false, false
			switch {
			case IsNilConst(y):
				if IsNilConst(v) {
					eq, dec = true, true
				} else if nonNilAt(v, pred, b) {
					eq, dec = false, true
				}
			default:
				ky, ok1 := y.(*ssa.Const)
				kv, ok2 := v.(*ssa.Const)
				if ok1 && ok2 && ky.Value != nil && kv.Value != nil {
					eq, dec = constant.Compare(kv.Value, token.EQL, ky.Value), true
				}
			}
			if dec {
				known = true
				val = eq == (bo.Op == token.EQL)
			}
		}
	}
	if !known {
		return b.Succs
	}
	if neg {
		val = !val
	}
	if val {
		return b.Succs[:1]
	}
	return b.Succs[1:2]
}

// nonNilAt: v is known to be non-nil on the edge at -> to (fresh allocation, or a dominating v != nil edge).
func nonNilAt(v ssa.Value, at, to *ssa.BasicBlock) bool {
	switch v.(type) {
	case *ssa.MakeInterface, *ssa.Alloc, *ssa.MakeSlice, *ssa.MakeMap, *ssa.MakeChan, *ssa.MakeClosure:
		return true
	}
	if len(at.Instrs) == 0 {
		return false
	}
	guards := Guards(at.Instrs[len(at.Instrs)-1])
	// the edge at -> to may itself be conditional
	if ifi, ok := at.Instrs[len(at.Instrs)-1].(*ssa.If); ok && len(at.Succs) == 2 && at.Succs[0] != at.Succs[1] {
		if at.Succs[0] == to {
			guards = append(guards, Guard{ifi, true})
		} else if at.Succs[1] == to {
			guards = append(guards, Guard{ifi, false})
		}
	}
	for _, g := range guards {
		c, neg := Cond(g.If.Cond, g.Taken)
		bo, ok := c.(*ssa.BinOp)
		if !ok || (bo.Op != token.EQL && bo.Op != token.NEQ) {
			continue
		}
		if !((bo.X == v && IsNilConst(bo.Y)) || (bo.Y == v && IsNilConst(bo.X))) {
			continue
		}
		isNeq := bo.Op == token.NEQ
		if neg {
			isNeq = !isNeq
		}
		if isNeq {
			return true
		}
	}
	return false
}

// IsExit reports whether in leaves the function (Return or Panic).
func IsExit(in ssa.Instruction) bool {
	switch in.(type) {
	case *ssa.Return, *ssa.Panic:
		return true
	}
	return false
}

// IsReturn reports whether in is a Return.
func IsReturn(in ssa.Instruction) bool {
	_, ok := in.(*ssa.Return)
	return ok
}

// ---------- loops ----------

// Loop is a natural loop.
type Loop struct {
	Head   *ssa.BasicBlock
	Blocks map[*ssa.BasicBlock]bool
}

// Loops returns the natural loops of f (one per header; back edges to the same header merged).
func Loops(f *ssa.Function) []*Loop {
	byHead := map[*ssa.BasicBlock]*Loop{}
	var order []*ssa.BasicBlock
	for _, b := range f.Blocks {
		for _, s := range b.Succs {
			if s.Dominates(b) { // back edge b -> s
				l := byHead[s]
				if l == nil {
					l = &Loop{Head: s, Blocks: map[*ssa.BasicBlock]bool{s: true}}
					byHead[s] = l
					order = append(order, s)
				}
				// collect body: nodes that reach b without passing s
				stack := []*ssa.BasicBlock{b}
				for len(stack) > 0 {
					x := stack[len(stack)-1]
					stack = stack[:len(stack)-1]
					if l.Blocks[x] {
						continue
					}
					l.Blocks[x] = true
					stack = append(stack, x.Preds...)
				}
			}
		}
	}
	var out []*Loop
	for _, h := range order {
		out = append(out, byHead[h])
	}
	return out
}

// Contains reports whether the instruction is in the loop.
func (l *Loop) Contains(in ssa.Instruction) bool { return l.Blocks[in.Block()] }

// InnermostLoop returns the smallest loop containing in, or nil.
func InnermostLoop(loops []*Loop, in ssa.Instruction) *Loop {
	var best *Loop
	for _, l := range loops {
		if l.Contains(in) && (best == nil || len(l.Blocks) < len(best.Blocks)) {
			best = l
		}
	}
	return best
}

// ---------- value origins ----------

// Peel strips value-preserving wrappers: ChangeType, same-kind Convert, MakeInterface,
// ChangeInterface, and single-source Phis.
func Peel(v ssa.Value) ssa.Value {
	for i := 0; i < 64; i++ {
		switch x := v.(type) {
		case *ssa.ChangeType:
			v = x.X
		case *ssa.MakeInterface:
			v = x.X
		case *ssa.ChangeInterface:
			v = x.X
		case *ssa.Convert:
			v = x.X
		case *ssa.Phi:
			var only ssa.Value
			same := true
			for _, e := range x.Edges {
				pe := e
				if pe == x {
					continue
				}
				if only == nil {
					only = pe
				} else if only != pe {
					same = false
				}
			}
			if !same || only == nil {
				return v
			}
			v = only
		default:
			return v
		}
	}
	return v
}

// PeelNoConvert strips ChangeType/MakeInterface/ChangeInterface only.
func PeelNoConvert(v ssa.Value) ssa.Value {
	for {
		switch x := v.(type) {
		case *ssa.ChangeType:
			v = x.X
		case *ssa.MakeInterface:
			v = x.X
		case *ssa.ChangeInterface:
			v = x.X
		default:
			return v
		}
	}
}

// Path renders a value as an access path such as "m.Header.MessageLength", "len(b)", "c.rwc".
// Loads are transparent; ok is false when the value is not a pure access path.
func Path(v ssa.Value) (string, bool) {
	switch x := v.(type) {
	case *ssa.Parameter:
		return x.Name(), true
	case *ssa.FreeVar:
		return x.Name(), true
	case *ssa.Global:
		return x.Name(), true
	case *ssa.Alloc:
		if x.Comment != "" {
			return x.Comment, true
		}
		return x.Name(), true
	case *ssa.UnOp:
		if x.Op == token.MUL {
			return Path(x.X)
		}
	case *ssa.FieldAddr:
		base, ok := Path(x.X)
		if !ok {
			return "", false
		}
		return base + "." + fieldName(x.X.Type(), x.Field), true
	case *ssa.Field:
		base, ok := Path(x.X)
		if !ok {
			return "", false
		}
		return base + "." + fieldName(x.X.Type(), x.Field), true
	case *ssa.ChangeType:
		return Path(x.X)
	case *ssa.MakeInterface:
		return Path(x.X)
	case *ssa.Convert:
		return Path(x.X)
	case *ssa.Const:
		if x.Value == nil {
			return "nil", true
		}
		return x.Value.ExactString(), true
	case *ssa.Call:
		if b, ok := x.Call.Value.(*ssa.Builtin); ok && (b.Name() == "len" || b.Name() == "cap") && len(x.Call.Args) == 1 {
			p, ok := Path(x.Call.Args[0])
			if ok {
				return b.Name() + "(" + p + ")", true
			}
		}
	case *ssa.Phi:
		if p := Peel(x); p != x {
			return Path(p)
		}
	}
	return "", false
}

func fieldName(t types.Type, i int) string {
	if p, ok := t.Underlying().(*types.Pointer); ok {
		t = p.Elem()
	}
	if s, ok := t.Underlying().(*types.Struct); ok && i < s.NumFields() {
		return s.Field(i).Name()
	}
	return fmt.Sprintf("#%d", i)
}

// FieldOf reports the (struct type name, field name) accessed by a FieldAddr/Field value,
// looking through loads.
func FieldOf(v ssa.Value) (typ, field string, base ssa.Value, ok bool) {
	for {
		if u, isU := v.(*ssa.UnOp); isU && u.Op == token.MUL {
			v = u.X
			continue
		}
		break
	}
	var bt types.Type
	var idx int
	switch x := v.(type) {
	case *ssa.FieldAddr:
		bt, idx, base = x.X.Type(), x.Field, x.X
	case *ssa.Field:
		bt, idx, base = x.X.Type(), x.Field, x.X
	default:
		return "", "", nil, false
	}
	if p, isP := bt.Underlying().(*types.Pointer); isP {
		bt = p.Elem()
	}
	name := ""
	if n, isN := bt.(*types.Named); isN {
		name = n.Obj().Name()
	}
	return name, fieldName(bt, idx), base, true
}

// ConstInt returns the integer value of a constant (looking through conversions).
func ConstInt(v ssa.Value) (int64, bool) {
	v = Peel(v)
	c, ok := v.(*ssa.Const)
	if !ok || c.Value == nil {
		return 0, false
	}
	if c.Value.Kind() != constant.Int {
		return 0, false
	}
	if i, exact := constant.Int64Val(c.Value); exact {
		return i, true
	}
	if u, exact := constant.Uint64Val(c.Value); exact {
		return int64(u), true
	}
	return 0, false
}

// ConstString returns the string value of a constant.
func ConstString(v ssa.Value) (string, bool) {
	v = PeelNoConvert(v)
	c, ok := v.(*ssa.Const)
	if !ok || c.Value == nil || c.Value.Kind() != constant.String {
		return "", false
	}
	return constant.StringVal(c.Value), true
}

// IsNilConst reports whether v is the nil constant.
func IsNilConst(v ssa.Value) bool {
	c, ok := v.(*ssa.Const)
	return ok && c.Value == nil
}

// NamedOf returns the named type of t (through one pointer).
func NamedOf(t types.Type) *types.Named {
	if p, ok := t.(*types.Pointer); ok {
		t = p.Elem()
	}
	n, _ := t.(*types.Named)
	return n
}

// TypeIs reports whether t (through one pointer) is the named type pkgPath.name.
func TypeIs(t types.Type, pkgPath, name string) bool {
	n := NamedOf(t)
	return n != nil && n.Obj().Name() == name && n.Obj().Pkg() != nil && n.Obj().Pkg().Path() == pkgPath
}

// TypePkgIs reports whether t is a named type (not a pointer to one) declared in package pkgPath.
func TypePkgIs(t types.Type, pkgPath string) bool {
	n, _ := t.(*types.Named)
	return n != nil && n.Obj().Pkg() != nil && n.Obj().Pkg().Path() == pkgPath
}

// Describe renders an instruction for witnesses.
func Describe(in ssa.Instruction) string {
	s := in.String()
	if v, ok := in.(ssa.Value); ok {
		s = v.Name() + " = " + s
	}
	if len(s) > 120 {
		s = s[:117] + "..."
	}
	return s
}

// Referrers returns the referrers of v (nil-safe).
func Referrers(v ssa.Value) []ssa.Instruction {
	r := v.Referrers()
	if r == nil {
		return nil
	}
	return *r
}

// Closures returns the anonymous functions created (MakeClosure or plain Function values of
// anonymous functions) in f, transitively.
func Closures(f *ssa.Function) []*ssa.Function {
	var out []*ssa.Function
	for _, a := range f.AnonFuncs {
		out = append(out, a)
		out = append(out, Closures(a)...)
	}
	return out
}

// BoundValue returns, for a closure function and one of its free variables, the value bound
// at the (single) MakeClosure site in its parent, or nil.
func BoundValue(fv *ssa.FreeVar) ssa.Value {
	fn := fv.Parent()
	par := fn.Parent()
	if par == nil {
		return nil
	}
	idx := -1
	for i, x := range fn.FreeVars {
		if x == fv {
			idx = i
		}
	}
	var found ssa.Value
	n := 0
	Instrs(par, func(in ssa.Instruction) {
		if mc, ok := in.(*ssa.MakeClosure); ok && mc.Fn == fn {
			found = mc.Bindings[idx]
			n++
		}
	})
	if n == 1 {
		return found
	}
	return nil
}

// ReturnValues lists the values that function f may return as result i, looking through the
// spill of named results that go/ssa introduces when the function has a defer (the result is
// stored to a local and re-loaded after rundefers).
func ReturnValues(f *ssa.Function, i int) []ssa.Value {
	var out []ssa.Value
	seen := map[ssa.Value]bool{}
	Instrs(f, func(in ssa.Instruction) {
		ret, ok := in.(*ssa.Return)
		if !ok || i >= len(ret.Results) {
			return
		}
		for _, v := range SpillSources(ret.Results[i]) {
			if !seen[v] {
				seen[v] = true
				out = append(out, v)
			}
		}
	})
	return out
}

// SpillSources: if v is a load of a local Alloc, the values stored into it (resolved through further cell
// loads: a value moved from one cell read to a store and read again is followed); else v itself.
func SpillSources(v ssa.Value) []ssa.Value {
	var out []ssa.Value
	seen := map[ssa.Value]bool{}
	var rec func(x ssa.Value, d int)
	rec = func(x ssa.Value, d int) {
		if seen[x] {
			return
		}
		seen[x] = true
		srcs := spillSources1(x)
		if d > 6 || len(srcs) == 1 && srcs[0] == x {
			out = append(out, x)
			return
		}
		for _, s := range srcs {
			rec(s, d+1)
		}
	}
	rec(v, 0)
	return out
}

func spillSources1(v ssa.Value) []ssa.Value {
	if u, ok := v.(*ssa.UnOp); ok && u.Op == token.MUL {
		if a, ok := u.X.(*ssa.Alloc); ok {
			// reaching definitions of the cell at the load: the closest store before it in its block, else the
			// stores reaching the end of each predecessor (a call that may write the cell through a captured
			// reference is not modelled: such cells are not queried here)
			var out []ssa.Value
			seenVal := map[ssa.Value]bool{}
			visited := map[*ssa.BasicBlock]bool{}
			complete := true
			var back func(blk *ssa.BasicBlock, from int)
			back = func(blk *ssa.BasicBlock, from int) {
				for i := from; i >= 0; i-- {
					if st, ok := blk.Instrs[i].(*ssa.Store); ok && st.Addr == ssa.Value(a) {
						if !seenVal[st.Val] {
							seenVal[st.Val] = true
							out = append(out, st.Val)
						}
						return
					}
				}
				if len(blk.Preds) == 0 {
					complete = false // reaches the entry without a store: the zero value
					return
				}
				for _, p := range blk.Preds {
					if visited[p] {
						continue
					}
					visited[p] = true
					back(p, len(p.Instrs)-1)
				}
			}
			back(u.Block(), Index(u)-1)
			_ = complete
			if len(out) > 0 {
				return out
			}
			for _, ref := range Referrers(a) {
				if st, ok := ref.(*ssa.Store); ok && st.Addr == ssa.Value(a) {
					out = append(out, st.Val)
				}
			}
			if len(out) > 0 {
				return out
			}
		}
	}
	return []ssa.Value{v}
}

// Unwrap resolves synthetic wrappers (bound-method closures, thunks) to the function they call.
func Unwrap(f *ssa.Function) *ssa.Function {
	for i := 0; i < 3 && f != nil && f.Synthetic != "" && f.Blocks != nil; i++ {
		var callee *ssa.Function
		n := 0
		for _, b := range f.Blocks {
			for _, in := range b.Instrs {
				if ci, ok := in.(ssa.CallInstruction); ok {
					if g := StaticCallee(ci); g != nil {
						callee = g
						n++
					}
				}
			}
		}
		if n != 1 {
			return f
		}
		f = callee
	}
	return f
}
