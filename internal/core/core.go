// Package core holds obligations, verdicts, known findings and the evidence writer.
package core

import (
	"bufio"
	"crypto/sha1"
	"encoding/json"
	"fmt"
	"os"
	"path/filepath"
	"sort"
	"strings"
)

type Status string

const (
	Discharged Status = "discharged"
	Violated   Status = "violated"
	Undecided  Status = "undecided"
)

// Obligation is one rule instance: (property, rule, construct) plus verdict.
// Construct is a position-free key: function object + construct description.
type Obligation struct {
	Rule       string   `json:"rule"`
	Construct  string   `json:"construct"`
	At         string   `json:"at"`
	Status     Status   `json:"status"`
	How        string   `json:"how"`
	Witness    []string `json:"witness,omitempty"`
	Nontrivial bool     `json:"nontrivial"`
	Config     string   `json:"config,omitempty"`
}

// Result collects what a property's rule set did on one build configuration.
type Result struct {
	Property string
	Config   string
	Obls     []Obligation
	Notes    []string
	Roles    map[string]string // role -> resolved construct
	Counts   map[string]int    // rule -> instances
}

func NewResult(prop, cfg string) *Result {
	return &Result{Property: prop, Config: cfg, Roles: map[string]string{}, Counts: map[string]int{}}
}

func (r *Result) add(o Obligation) {
	o.Config = r.Config
	r.Obls = append(r.Obls, o)
	r.Counts[o.Rule]++
}

// Ok records a discharged obligation. nontrivial = the discharge needed a dominance / path /
// provenance / table argument (not a constant fact).
func (r *Result) Ok(rule, construct, at, how string) {
	r.add(Obligation{Rule: rule, Construct: construct, At: at, Status: Discharged, How: how, Nontrivial: true})
}

// Trivial records an obligation discharged by a constant fact.
func (r *Result) Trivial(rule, construct, at, how string) {
	r.add(Obligation{Rule: rule, Construct: construct, At: at, Status: Discharged, How: how})
}

func (r *Result) Fail(rule, construct, at, why string, witness ...string) {
	r.add(Obligation{Rule: rule, Construct: construct, At: at, Status: Violated, How: why, Witness: witness, Nontrivial: true})
}

func (r *Result) Undecided(rule, construct, at, why string, witness ...string) {
	r.add(Obligation{Rule: rule, Construct: construct, At: at, Status: Undecided, How: why, Witness: witness, Nontrivial: true})
}

// Check is Ok when cond holds, Fail otherwise.
func (r *Result) Check(cond bool, rule, construct, at, okHow, failWhy string, witness ...string) bool {
	if cond {
		r.Ok(rule, construct, at, okHow)
	} else {
		r.Fail(rule, construct, at, failWhy, witness...)
	}
	return cond
}

func (r *Result) Note(format string, a ...any) {
	r.Notes = append(r.Notes, fmt.Sprintf(format, a...))
}

func (r *Result) Role(role, resolved string) { r.Roles[role] = resolved }

// ---- known findings ----

type Finding struct {
	Property, Rule, Construct, Text string
}

func LoadFindings(path string) ([]Finding, error) {
	f, err := os.Open(path)
	if err != nil {
		if os.IsNotExist(err) {
			return nil, nil
		}
		return nil, err
	}
	defer f.Close()
	var out []Finding
	sc := bufio.NewScanner(f)
	for sc.Scan() {
		line := strings.TrimSpace(sc.Text())
		if !strings.HasPrefix(line, "finding:") {
			continue
		}
		rest := strings.TrimSpace(strings.TrimPrefix(line, "finding:"))
		fd := Finding{}
		fields := strings.Fields(rest)
		n := 0
		for _, fl := range fields {
			switch {
			case strings.HasPrefix(fl, "property="):
				fd.Property = strings.TrimPrefix(fl, "property=")
			case strings.HasPrefix(fl, "rule="):
				fd.Rule = strings.TrimPrefix(fl, "rule=")
			case strings.HasPrefix(fl, "construct="):
				fd.Construct = strings.TrimPrefix(fl, "construct=")
			default:
				goto done
			}
			n++
		}
	done:
		fd.Text = strings.Join(fields[n:], " ")
		if fd.Property == "" || fd.Rule == "" || fd.Construct == "" {
			return nil, fmt.Errorf("malformed finding line: %q", line)
		}
		out = append(out, fd)
	}
	return out, sc.Err()
}

// ---- evidence ----

type Evidence struct {
	PropertyID  string         `json:"property_id"`
	Tier        string         `json:"tier"`
	Seed        int            `json:"seed"`
	Level       string         `json:"level"`
	Coverage    map[string]any `json:"coverage"`
	Assumptions []string       `json:"assumptions"`
	WallS       float64        `json:"wall_s"`
	Violations  int            `json:"violations"`
}

// ReplayPath returns the replay file path for an obligation.
func ReplayPath(dir, prop string, o Obligation) string {
	h := sha1.Sum([]byte(o.Rule + "|" + o.Construct + "|" + o.Config))
	rule := strings.NewReplacer("/", "_", " ", "_").Replace(o.Rule)
	return filepath.Join(dir, "replay", fmt.Sprintf("%s-%s-%x.txt", prop, rule, h[:4]))
}

func WriteReplay(path, prop, ruleText string, o Obligation) error {
	if err := os.MkdirAll(filepath.Dir(path), 0o755); err != nil {
		return err
	}
	var b strings.Builder
	fmt.Fprintf(&b, "property: %s\nrule: %s\nconstruct: %s\nconfig: %s\nstatus: %s\nat: %s\nreason: %s\n", prop, o.Rule, o.Construct, o.Config, o.Status, o.At, o.How)
	if ruleText != "" {
		fmt.Fprintf(&b, "rule text: %s\n", ruleText)
	}
	if len(o.Witness) > 0 {
		b.WriteString("witness:\n")
		for _, w := range o.Witness {
			fmt.Fprintf(&b, "  %s\n", w)
		}
	}
	return os.WriteFile(path, []byte(b.String()), 0o644)
}

func WriteEvidence(path string, ev *Evidence) error {
	if err := os.MkdirAll(filepath.Dir(path), 0o755); err != nil {
		return err
	}
	data, err := json.MarshalIndent(ev, "", " ")
	if err != nil {
		return err
	}
	return os.WriteFile(path, append(data, '\n'), 0o644)
}

// SortObls orders obligations deterministically.
func SortObls(o []Obligation) {
	sort.SliceStable(o, func(i, j int) bool {
		if o[i].Config != o[j].Config {
			return o[i].Config < o[j].Config
		}
		if o[i].Rule != o[j].Rule {
			return o[i].Rule < o[j].Rule
		}
		return o[i].Construct < o[j].Construct
	})
}
