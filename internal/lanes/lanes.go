// Package lanes is the byte-lane layout domain of DESIGN.md (engine E6).
//
// Reader side: an integer SSA value computed from the bytes of one input slice is represented
// exactly as eight byte lanes (lane 0 = least significant byte); each lane is 0, a whole input
// byte data[k], or unknown. Supported: indexing, constant re-slicing, encoding/binary
// BigEndian/LittleEndian UintN, shifts by multiples of 8, | + ^ of disjoint lanes, & with byte
// masks, integer conversions, and inlining of module helpers (uint24to32).
//
// Writer side: the bytes a function stores into an output slice are represented as
// offset -> (source value, lane), from b[i] = v, binary.BigEndian.PutUintN(b[lo:hi], v),
// copy(b[lo:hi], helper(v)) with the helper's returned []byte literal summarised.
package lanes

import (
	"fmt"
	"go/constant"
	"go/token"
	"go/types"
	"strings"

	"golang.org/x/tools/go/ssa"
)

// Lane describes one byte of an integer value.
type Lane struct {
	Kind byte // '0' zero, 'd' data byte, '?' unknown
	Idx  int  // for 'd': index into the input slice
}

func (l Lane) String() string {
	switch l.Kind {
	case '0':
		return "0"
	case 'd':
		return fmt.Sprintf("d[%d]", l.Idx)
	}
	return "?"
}

// Word is an integer value as 8 lanes, lane 0 least significant.
type Word [8]Lane

func zeroWord() Word {
	var w Word
	for i := range w {
		w[i].Kind = '0'
	}
	return w
}

func unkWord() Word {
	var w Word
	for i := range w {
		w[i].Kind = '?'
	}
	return w
}

// String renders most-significant lane first, trimming leading zeros.
func (w Word) String() string {
	hi := 7
	for hi > 0 && w[hi].Kind == '0' {
		hi--
	}
	var parts []string
	for i := hi; i >= 0; i-- {
		parts = append(parts, w[i].String())
	}
	return "[" + strings.Join(parts, " ") + "]"
}

// IsBigEndianOf reports whether w is exactly the big-endian integer of data[lo:hi].
func (w Word) IsBigEndianOf(lo, hi int) bool {
	n := hi - lo
	for i := 0; i < 8; i++ {
		if i < n {
			if w[i].Kind != 'd' || w[i].Idx != hi-1-i {
				return false
			}
		} else if w[i].Kind != '0' {
			return false
		}
	}
	return true
}

// Known reports whether no lane is unknown.
func (w Word) Known() bool {
	for _, l := range w {
		if l.Kind == '?' {
			return false
		}
	}
	return true
}

// SliceRef is a []byte value known to be base[Off:] (length possibly limited).
type SliceRef struct {
	Base ssa.Value
	Off  int
}

// Reader evaluates integer expressions over one base slice.
type Reader struct {
	// IsBase reports whether v is (an alias of) the input slice at offset 0.
	IsBase func(v ssa.Value) bool
	// Callee returns a module function to inline (nil = opaque).
	Callee   func(c *ssa.Call) *ssa.Function
	MaxDepth int
}

type rframe struct {
	slices map[*ssa.Parameter]int // slice params bound to base offset
	words  map[*ssa.Parameter]Word
}

// SliceOff resolves a []byte value to an offset into the base slice.
func (r *Reader) SliceOff(v ssa.Value) (int, bool) { return r.sliceOff(v, &rframe{}) }

func (r *Reader) sliceOff(v ssa.Value, fr *rframe) (int, bool) {
	for i := 0; i < 16; i++ {
		if r.IsBase != nil && r.IsBase(v) {
			return 0, true
		}
		switch x := v.(type) {
		case *ssa.Parameter:
			if off, ok := fr.slices[x]; ok {
				return off, true
			}
			return 0, false
		case *ssa.Slice:
			base, ok := r.sliceOff(x.X, fr)
			if !ok {
				return 0, false
			}
			lo := 0
			if x.Low != nil {
				c, ok := x.Low.(*ssa.Const)
				if !ok {
					return 0, false
				}
				lo = int(c.Int64())
			}
			return base + lo, true
		case *ssa.ChangeType:
			v = x.X
		case *ssa.Phi:
			// all edges must agree
			off := -1
			for _, e := range x.Edges {
				o, ok := r.sliceOff(e, fr)
				if !ok || (off >= 0 && o != off) {
					return 0, false
				}
				off = o
			}
			return off, off >= 0
		default:
			return 0, false
		}
	}
	return 0, false
}

// Eval evaluates an integer value.
func (r *Reader) Eval(v ssa.Value) Word { return r.eval(v, &rframe{}, 0) }

func width(t types.Type) int {
	b, ok := t.Underlying().(*types.Basic)
	if !ok {
		return 8
	}
	switch b.Kind() {
	case types.Uint8, types.Int8:
		return 1
	case types.Uint16, types.Int16:
		return 2
	case types.Uint32, types.Int32:
		return 4
	}
	return 8
}

func (r *Reader) eval(v ssa.Value, fr *rframe, depth int) Word {
	switch x := v.(type) {
	case *ssa.Const:
		if x.Value == nil || (x.Value.Kind() != constant.Int && x.Value.Kind() != constant.Float) {
			return unkWord() // nil, or a string / float / complex constant: not a byte word
		}
		w := zeroWord()
		u := x.Uint64()
		for i := 0; i < 8; i++ {
			b := byte(u >> (8 * uint(i)))
			if b != 0 {
				w[i].Kind = '?' // non-zero constant byte: not a data lane
			}
		}
		return w
	case *ssa.Parameter:
		if w, ok := fr.words[x]; ok {
			return w
		}
		return unkWord()
	case *ssa.Convert:
		w := r.eval(x.X, fr, depth)
		n := width(x.Type())
		for i := n; i < 8; i++ {
			w[i] = Lane{Kind: '0'}
		}
		return w
	case *ssa.ChangeType:
		return r.eval(x.X, fr, depth)
	case *ssa.UnOp:
		if x.Op == token.MUL {
			if ia, ok := x.X.(*ssa.IndexAddr); ok {
				if off, ok := r.sliceOff(ia.X, fr); ok {
					if c, ok := ia.Index.(*ssa.Const); ok {
						w := zeroWord()
						w[0] = Lane{Kind: 'd', Idx: off + int(c.Int64())}
						return w
					}
				}
			}
		}
		return unkWord()
	case *ssa.BinOp:
		a := r.eval(x.X, fr, depth)
		switch x.Op {
		case token.SHL, token.SHR:
			c, ok := x.Y.(*ssa.Const)
			if !ok {
				if cv, ok2 := x.Y.(*ssa.Convert); ok2 {
					c, ok = cv.X.(*ssa.Const)
				}
			}
			if !ok || c.Int64()%8 != 0 {
				return unkWord()
			}
			k := int(c.Int64() / 8)
			w := zeroWord()
			for i := 0; i < 8; i++ {
				var j int
				if x.Op == token.SHL {
					j = i - k
				} else {
					j = i + k
				}
				if j >= 0 && j < 8 {
					w[i] = a[j]
				}
			}
			n := width(x.Type())
			for i := n; i < 8; i++ {
				w[i] = Lane{Kind: '0'}
			}
			return w
		case token.OR, token.ADD, token.XOR:
			b := r.eval(x.Y, fr, depth)
			w := zeroWord()
			for i := 0; i < 8; i++ {
				switch {
				case a[i].Kind == '0':
					w[i] = b[i]
				case b[i].Kind == '0':
					w[i] = a[i]
				default:
					w[i] = Lane{Kind: '?'}
				}
			}
			return w
		case token.AND:
			c, ok := x.Y.(*ssa.Const)
			other := a
			if !ok {
				c, ok = x.X.(*ssa.Const)
				other = r.eval(x.Y, fr, depth)
			}
			if !ok || c.Value == nil || (c.Value.Kind() != constant.Int && c.Value.Kind() != constant.Float) {
				return unkWord()
			}
			u := c.Uint64()
			w := zeroWord()
			for i := 0; i < 8; i++ {
				m := byte(u >> (8 * uint(i)))
				switch m {
				case 0:
				case 0xff:
					w[i] = other[i]
				default:
					if other[i].Kind != '0' {
						w[i] = Lane{Kind: '?'}
					}
				}
			}
			return w
		}
		return unkWord()
	case *ssa.Phi:
		var res *Word
		for _, e := range x.Edges {
			w := r.eval(e, fr, depth)
			if res == nil {
				res = &w
			} else if *res != w {
				return unkWord()
			}
		}
		if res != nil {
			return *res
		}
		return unkWord()
	case *ssa.Call:
		return r.evalCall(x, fr, depth, 0)
	case *ssa.Extract:
		// one result of a helper that returns several (split8and24(w) (hi, lo))
		if c, ok := x.Tuple.(*ssa.Call); ok {
			return r.evalCall(c, fr, depth, x.Index)
		}
	}
	return unkWord()
}

func (r *Reader) evalCall(c *ssa.Call, fr *rframe, depth int, resIdx int) Word {
	com := c.Common()
	// encoding/binary
	if !com.IsInvoke() {
		if f, ok := com.Value.(*ssa.Function); ok && f.Pkg != nil && f.Pkg.Pkg.Path() == "encoding/binary" && f.Signature.Recv() != nil {
			rn := f.Signature.Recv().Type().String()
			n := 0
			switch f.Name() {
			case "Uint16":
				n = 2
			case "Uint32":
				n = 4
			case "Uint64":
				n = 8
			}
			if n > 0 && len(com.Args) == 2 {
				off, ok := r.sliceOff(com.Args[1], fr)
				if !ok {
					return unkWord()
				}
				w := zeroWord()
				for i := 0; i < n; i++ {
					if strings.Contains(rn, "bigEndian") {
						w[i] = Lane{Kind: 'd', Idx: off + n - 1 - i}
					} else {
						w[i] = Lane{Kind: 'd', Idx: off + i}
					}
				}
				return w
			}
			return unkWord()
		}
	}
	if r.Callee == nil || depth >= r.MaxDepth {
		return unkWord()
	}
	g := r.Callee(c)
	if g == nil || g.Blocks == nil {
		return unkWord()
	}
	nf := &rframe{slices: map[*ssa.Parameter]int{}, words: map[*ssa.Parameter]Word{}}
	for i, p := range g.Params {
		if i >= len(com.Args) {
			break
		}
		if _, isSlice := p.Type().Underlying().(*types.Slice); isSlice {
			if off, ok := r.sliceOff(com.Args[i], fr); ok {
				nf.slices[p] = off
			}
		} else if _, isBasic := p.Type().Underlying().(*types.Basic); isBasic {
			nf.words[p] = r.eval(com.Args[i], fr, depth)
		}
	}
	// join all non-guard returns: a helper like uint24to32 has an early `return 0` under a length
	// guard; the data-carrying return is the one with data lanes.
	var best *Word
	for _, b := range g.Blocks {
		ret, ok := b.Instrs[len(b.Instrs)-1].(*ssa.Return)
		if !ok || len(ret.Results) <= resIdx {
			continue
		}
		w := r.eval(ret.Results[resIdx], nf, depth+1)
		if w == zeroWord() {
			continue // constant-zero early return (length guard)
		}
		if best == nil {
			best = &w
		} else if *best != w {
			return unkWord()
		}
	}
	if best == nil {
		return zeroWord()
	}
	return *best
}

// ---------------- writer side ----------------

// Src identifies what a written byte comes from.
type Src struct {
	Val  ssa.Value // the integer value (nil for constants)
	Desc string    // access path / description of Val
	Lane int       // which byte of Val (0 = least significant); -1 = payload/other
}

func (s Src) String() string {
	if s.Lane < 0 {
		return s.Desc
	}
	return fmt.Sprintf("%s.byte%d", s.Desc, s.Lane)
}

// Writer extracts offset -> Src facts for stores into one output slice parameter.
type Writer struct {
	IsBase   func(v ssa.Value) bool
	Describe func(v ssa.Value) string
	// Callee for helper summarisation (uint32to24).
	Callee func(c *ssa.Call) *ssa.Function
	depth  int
}

// Fact is one written byte.
type Fact struct {
	Off  int
	Src  Src
	At   ssa.Instruction
	Cond string // non-empty when the write is under a condition (description)
}

func (w *Writer) sliceOff(v ssa.Value) (int, int, bool) {
	// returns (low offset, high offset or -1)
	for i := 0; i < 16; i++ {
		if w.IsBase != nil && w.IsBase(v) {
			return 0, -1, true
		}
		switch x := v.(type) {
		case *ssa.Slice:
			lo0, _, ok := w.sliceOff(x.X)
			if !ok {
				return 0, 0, false
			}
			lo := 0
			if x.Low != nil {
				c, ok := x.Low.(*ssa.Const)
				if !ok {
					return 0, 0, false
				}
				lo = int(c.Int64())
			}
			hi := -1
			if x.High != nil {
				c, ok := x.High.(*ssa.Const)
				if !ok {
					return 0, 0, false
				}
				hi = lo0 + int(c.Int64())
			}
			return lo0 + lo, hi, true
		case *ssa.ChangeType:
			v = x.X
		default:
			return 0, 0, false
		}
	}
	return 0, 0, false
}

// Facts scans function f.
func (w *Writer) Facts(f *ssa.Function) (facts []Fact, unknown []ssa.Instruction) {
	desc := func(v ssa.Value) string {
		if w.Describe != nil {
			return w.Describe(v)
		}
		return v.Name()
	}
	for _, b := range f.Blocks {
		for _, in := range b.Instrs {
			switch x := in.(type) {
			case *ssa.Store:
				ia, ok := x.Addr.(*ssa.IndexAddr)
				if !ok {
					continue
				}
				off, _, ok := w.sliceOff(ia.X)
				if !ok {
					continue
				}
				c, ok := ia.Index.(*ssa.Const)
				if !ok {
					unknown = append(unknown, in)
					continue
				}
				src, lane := peelLane(x.Val)
				facts = append(facts, Fact{Off: off + int(c.Int64()), Src: Src{Val: src, Desc: desc(src), Lane: lane}, At: in})
			case *ssa.Call:
				com := x.Common()
				if fn, ok := com.Value.(*ssa.Function); ok && fn.Pkg != nil && fn.Pkg.Pkg.Path() == "encoding/binary" && fn.Signature.Recv() != nil && strings.HasPrefix(fn.Name(), "PutUint") {
					n := map[string]int{"PutUint16": 2, "PutUint32": 4, "PutUint64": 8}[fn.Name()]
					off, _, ok := w.sliceOff(com.Args[1])
					if !ok {
						continue
					}
					big := strings.Contains(fn.Signature.Recv().Type().String(), "bigEndian")
					src, lane0 := peelLane(com.Args[2])
					for i := 0; i < n; i++ {
						l := i
						if big {
							l = n - 1 - i
						}
						facts = append(facts, Fact{Off: off + i, Src: Src{Val: src, Desc: desc(src), Lane: l + lane0}, At: in})
					}
					continue
				}
				// a helper that writes into a sub-slice of the output it is handed (putUint24(b[1:4], v))
				if w.Callee != nil && w.depth < 3 {
					if g := w.Callee(x); g != nil && g.Blocks != nil {
						handled := false
						for ai, a := range com.Args {
							off, _, ok := w.sliceOff(a)
							if !ok || ai >= len(g.Params) {
								continue
							}
							gp := g.Params[ai]
							sub := &Writer{IsBase: func(v ssa.Value) bool { return v == ssa.Value(gp) }, Describe: w.Describe, Callee: w.Callee, depth: w.depth + 1}
							hf, hu := sub.Facts(g)
							if len(hf) == 0 && len(hu) == 0 {
								continue
							}
							handled = true
							for range hu {
								unknown = append(unknown, in)
							}
							for _, ft := range hf {
								src, lane := ft.Src.Val, ft.Src.Lane
								if pp, isP := src.(*ssa.Parameter); isP && pp.Parent() == g {
									for pi, q := range g.Params {
										if q == pp && pi < len(com.Args) {
											var l0 int
											src, l0 = peelLane(com.Args[pi])
											if lane >= 0 {
												lane += l0
											}
										}
									}
								}
								d := ft.Src.Desc
								if src != nil && src != ft.Src.Val {
									d = desc(src)
								}
								facts = append(facts, Fact{Off: off + ft.Off, Src: Src{Val: src, Desc: d, Lane: lane}, At: ft.At})
							}
						}
						if handled {
							continue
						}
					}
				}
				if b, ok := com.Value.(*ssa.Builtin); ok && b.Name() == "copy" {
					off, hi, ok := w.sliceOff(com.Args[0])
					if !ok {
						continue
					}
					// source: helper(v) returning a byte-slice literal
					if hc, ok := com.Args[1].(*ssa.Call); ok && w.Callee != nil {
						if g := w.Callee(hc); g != nil {
							if lanes, arg, ok := summariseByteLiteral(g); ok && arg < len(hc.Call.Args) {
								src, lane0 := peelLane(hc.Call.Args[arg])
								n := len(lanes)
								if hi >= 0 && hi-off < n {
									n = hi - off
								}
								for i := 0; i < n; i++ {
									facts = append(facts, Fact{Off: off + i, Src: Src{Val: src, Desc: desc(src), Lane: lanes[i] + lane0}, At: in})
								}
								continue
							}
						}
					}
					// payload copy
					facts = append(facts, Fact{Off: off, Src: Src{Val: com.Args[1], Desc: "copy(" + desc(com.Args[1]) + ")", Lane: -1}, At: in})
				}
			}
		}
	}
	return facts, unknown
}

// peelLane: strips conversions and `>> 8k` from a value being narrowed to a byte; returns the
// underlying value and the lane selected.
func peelLane(v ssa.Value) (ssa.Value, int) {
	lane := 0
	for i := 0; i < 8; i++ {
		switch x := v.(type) {
		case *ssa.Convert:
			v = x.X
		case *ssa.ChangeType:
			v = x.X
		case *ssa.BinOp:
			if x.Op == token.SHR {
				if c, ok := x.Y.(*ssa.Const); ok && c.Int64()%8 == 0 {
					lane += int(c.Int64() / 8)
					v = x.X
					continue
				}
			}
			return v, lane
		default:
			return v, lane
		}
	}
	return v, lane
}

// summariseByteLiteral: g(n) returns []byte{uint8(n>>16), uint8(n>>8), uint8(n)} -> lanes [2 1 0], param index.
func summariseByteLiteral(g *ssa.Function) ([]int, int, bool) {
	if g.Blocks == nil || len(g.Blocks) != 1 {
		return nil, 0, false
	}
	if lanes, arg, ok := summariseFilledSlice(g); ok {
		return lanes, arg, true
	}
	// find the array alloc and its element stores
	vals := map[int]ssa.Value{}
	for _, in := range g.Blocks[0].Instrs {
		st, ok := in.(*ssa.Store)
		if !ok {
			continue
		}
		ia, ok := st.Addr.(*ssa.IndexAddr)
		if !ok {
			continue
		}
		c, ok := ia.Index.(*ssa.Const)
		if !ok {
			return nil, 0, false
		}
		vals[int(c.Int64())] = st.Val
	}
	if len(vals) == 0 {
		return nil, 0, false
	}
	lanes := make([]int, len(vals))
	arg := -1
	for i := 0; i < len(vals); i++ {
		v, ok := vals[i]
		if !ok {
			return nil, 0, false
		}
		src, lane := peelLane(v)
		p, ok := src.(*ssa.Parameter)
		if !ok {
			return nil, 0, false
		}
		idx := -1
		for k, gp := range g.Params {
			if gp == p {
				idx = k
			}
		}
		if arg >= 0 && arg != idx {
			return nil, 0, false
		}
		arg = idx
		lanes[i] = lane
	}
	return lanes, arg, true
}

// summariseFilledSlice: g(n) allocates a byte slice of constant length, has it filled from n (directly or by a
// helper such as putUint24(b, n)) and returns it: the lanes of n per byte and n's parameter index.
func summariseFilledSlice(g *ssa.Function) ([]int, int, bool) {
	var ret *ssa.Return
	for _, in := range g.Blocks[0].Instrs {
		if r, ok := in.(*ssa.Return); ok {
			ret = r
		}
	}
	if ret == nil || len(ret.Results) != 1 {
		return nil, 0, false
	}
	base := ret.Results[0]
	n := -1
	switch x := base.(type) {
	case *ssa.MakeSlice:
		if c, ok := x.Len.(*ssa.Const); ok {
			n = int(c.Int64())
		}
	case *ssa.Slice:
		if al, ok := x.X.(*ssa.Alloc); ok {
			if at, ok := al.Type().Underlying().(*types.Pointer).Elem().Underlying().(*types.Array); ok {
				n = int(at.Len())
			}
		}
	}
	if n <= 0 || n > 8 {
		return nil, 0, false
	}
	w := &Writer{IsBase: func(v ssa.Value) bool { return v == base }, Callee: func(c *ssa.Call) *ssa.Function {
		if f, ok := c.Call.Value.(*ssa.Function); ok && f.Pkg == g.Pkg {
			return f
		}
		return nil
	}, depth: 1}
	facts, unk := w.Facts(g)
	if len(unk) > 0 || len(facts) != n {
		return nil, 0, false
	}
	lanes := make([]int, n)
	seen := make([]bool, n)
	arg := -1
	for _, ft := range facts {
		p, ok := ft.Src.Val.(*ssa.Parameter)
		if !ok || ft.Off < 0 || ft.Off >= n || ft.Src.Lane < 0 {
			return nil, 0, false
		}
		idx := -1
		for k, gp := range g.Params {
			if gp == p {
				idx = k
			}
		}
		if idx < 0 || (arg >= 0 && arg != idx) {
			return nil, 0, false
		}
		arg = idx
		lanes[ft.Off], seen[ft.Off] = ft.Src.Lane, true
	}
	for _, ok := range seen {
		if !ok {
			return nil, 0, false
		}
	}
	return lanes, arg, true
}

// SummariseByteFunc: g(n) returns a fresh byte slice whose bytes are lanes of its parameter n — the lanes per
// output byte and n's parameter index.
func SummariseByteFunc(g *ssa.Function) ([]int, int, bool) { return summariseByteLiteral(g) }
