// Package prog loads /repo's current working tree into a type-checked, SSA-built program with a
// VTA call graph (engine E0 of DESIGN.md). Nothing of go-diameter is executed.
package prog

import (
	"fmt"
	"go/token"
	"go/types"
	"os"
	"path/filepath"
	"sort"
	"strings"

	"golang.org/x/tools/go/callgraph"
	"golang.org/x/tools/go/callgraph/cha"
	"golang.org/x/tools/go/callgraph/vta"
	"golang.org/x/tools/go/packages"
	"golang.org/x/tools/go/ssa"
	"golang.org/x/tools/go/ssa/ssautil"
)

// ModPath is the module path of go-diameter.
const ModPath = "github.com/fiorix/go-diameter/v4"

// Config is one build configuration.
type Config struct {
	GOOS, GOARCH string
}

func (c Config) String() string { return c.GOOS + "/" + c.GOARCH }

// Program is a loaded build configuration of /repo.
type Program struct {
	Dir    string
	Config Config
	Fset   *token.FileSet
	Pkgs   []*packages.Package // module packages (roots)
	SSA    *ssa.Program
	ByPath map[string]*ssa.Package
	cg     *callgraph.Graph
	all    map[*ssa.Function]bool
	mod    []*ssa.Function
	NFuncs int
}

// Load type-checks ./... in dir for the given configuration and builds SSA for the whole program.
func Load(dir string, cfg Config) (*Program, error) {
	env := append(os.Environ(),
		"GOFLAGS=-mod=mod", "GOPROXY=off", "GOSUMDB=off", "GOTOOLCHAIN=local", "GOWORK=off",
		"CGO_ENABLED=0",
	)
	if cfg.GOOS != "" {
		env = append(env, "GOOS="+cfg.GOOS, "GOARCH="+cfg.GOARCH)
	}
	pc := &packages.Config{
		Mode: packages.LoadAllSyntax,
		Dir:  dir,
		Env:  env,
	}
	pkgs, err := packages.Load(pc, "./...")
	if err != nil {
		return nil, fmt.Errorf("packages.Load: %v", err)
	}
	if len(pkgs) == 0 {
		return nil, fmt.Errorf("no packages loaded from %s", dir)
	}
	var errs []string
	packages.Visit(pkgs, nil, func(p *packages.Package) {
		for _, e := range p.Errors {
			errs = append(errs, e.Error())
		}
	})
	if len(errs) > 0 {
		sort.Strings(errs)
		if len(errs) > 10 {
			errs = errs[:10]
		}
		return nil, fmt.Errorf("type-check/load errors (%s): %s", cfg, strings.Join(errs, "; "))
	}
	sp, spkgs := ssautil.AllPackages(pkgs, ssa.InstantiateGenerics)
	sp.Build()
	p := &Program{Dir: dir, Config: cfg, Fset: pkgs[0].Fset, Pkgs: pkgs, SSA: sp, ByPath: map[string]*ssa.Package{}}
	for i, sk := range spkgs {
		if sk == nil {
			return nil, fmt.Errorf("no SSA package for %s", pkgs[i].PkgPath)
		}
		p.ByPath[pkgs[i].PkgPath] = sk
	}
	p.all = ssautil.AllFunctions(sp)
	p.NFuncs = len(p.all)
	for f := range p.all {
		// the instantiations of a generic function of the module (and their anonymous functions) have no package
		// of their own: they belong where the generic function was declared
		if sk := ownerPkg(f); sk != nil && p.InModule(sk.Pkg) && f.Blocks != nil {
			p.mod = append(p.mod, f)
		}
	}
	sort.Slice(p.mod, func(i, j int) bool {
		if p.mod[i].Pos() != p.mod[j].Pos() {
			return p.mod[i].Pos() < p.mod[j].Pos()
		}
		return p.mod[i].String() < p.mod[j].String()
	})
	return p, nil
}

// ownerPkg: the package a function belongs to: its own, its enclosing function's, or — for an instantiation of a
// generic function — that of the generic function.
func ownerPkg(f *ssa.Function) *ssa.Package {
	f = topParent(f)
	if f.Pkg != nil {
		return f.Pkg
	}
	if o := f.Origin(); o != nil {
		return topParent(o).Pkg
	}
	return nil
}

func topParent(f *ssa.Function) *ssa.Function {
	for f.Parent() != nil {
		f = f.Parent()
	}
	return f
}

// InModule reports whether the types package belongs to go-diameter.
func (p *Program) InModule(tp *types.Package) bool {
	return tp != nil && (tp.Path() == ModPath || strings.HasPrefix(tp.Path(), ModPath+"/"))
}

// IsLibrary reports whether the function belongs to the library packages under diam/ (not examples).
func (p *Program) IsLibrary(f *ssa.Function) bool {
	sk := ownerPkg(f)
	if sk == nil {
		return false
	}
	path := sk.Pkg.Path()
	return path == ModPath+"/diam" || strings.HasPrefix(path, ModPath+"/diam/")
}

// ModuleFuncs returns every function with a body that belongs to go-diameter (all packages,
// anonymous functions included), in source order.
func (p *Program) ModuleFuncs() []*ssa.Function { return p.mod }

// LibraryFuncs returns the module functions under diam/ excluding test helper package diamtest.
func (p *Program) LibraryFuncs() []*ssa.Function {
	var out []*ssa.Function
	for _, f := range p.mod {
		if p.IsLibrary(f) {
			out = append(out, f)
		}
	}
	return out
}

// CallGraph builds (once) the VTA call graph seeded with CHA.
func (p *Program) CallGraph() *callgraph.Graph {
	if p.cg == nil {
		p.cg = vta.CallGraph(p.all, cha.CallGraph(p.SSA))
	}
	return p.cg
}

// Pkg returns the SSA package for a path relative to the module ("diam", "diam/sm", ...).
func (p *Program) Pkg(rel string) *ssa.Package {
	if rel == "" {
		return p.ByPath[ModPath]
	}
	return p.ByPath[ModPath+"/"+rel]
}

// Func returns the package-level function rel.name, or nil.
func (p *Program) Func(rel, name string) *ssa.Function {
	pk := p.Pkg(rel)
	if pk == nil {
		return nil
	}
	return pk.Func(name)
}

// Method returns the method of the named type (pointer receiver method set), or nil.
func (p *Program) Method(rel, typ, name string) *ssa.Function {
	pk := p.Pkg(rel)
	if pk == nil {
		return nil
	}
	tn := pk.Type(typ)
	if tn == nil {
		return nil
	}
	T := tn.Type()
	for _, t := range []types.Type{T, types.NewPointer(T)} {
		ms := p.SSA.MethodSets.MethodSet(t)
		for i := 0; i < ms.Len(); i++ {
			if ms.At(i).Obj().Name() == name {
				if fn := p.SSA.MethodValue(ms.At(i)); fn != nil {
					// prefer the declared (non-wrapper) function
					if fn.Synthetic != "" {
						if obj, ok := ms.At(i).Obj().(*types.Func); ok {
							if d := p.SSA.FuncValue(obj); d != nil {
								return d
							}
						}
					}
					return fn
				}
			}
		}
	}
	return nil
}

// NamedType returns the named type rel.name or nil.
func (p *Program) NamedType(rel, name string) *types.Named {
	pk := p.Pkg(rel)
	if pk == nil {
		return nil
	}
	tn := pk.Type(name)
	if tn == nil {
		return nil
	}
	n, _ := tn.Type().(*types.Named)
	return n
}

// Position renders a token.Pos relative to the repository root.
func (p *Program) Position(pos token.Pos) string {
	if !pos.IsValid() {
		return "-"
	}
	ps := p.Fset.Position(pos)
	rel, err := filepath.Rel(p.Dir, ps.Filename)
	if err != nil || strings.HasPrefix(rel, "..") {
		rel = ps.Filename
	}
	return fmt.Sprintf("%s:%d", rel, ps.Line)
}

// FuncName is a stable, position-free name for a function (closures are numbered by go/ssa in
// source order within their parent: parent$1, parent$2 ...).
func FuncName(f *ssa.Function) string {
	if f == nil {
		return "<nil>"
	}
	s := f.String()
	s = strings.ReplaceAll(s, ModPath+"/", "")
	return s
}
