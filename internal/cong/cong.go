// Package cong is the "linear + congruence mod 4" abstract domain of DESIGN.md (engine E6b).
//
// An int-valued SSA expression over ONE symbolic non-negative input L is represented exactly as
//
//	val(L) = K*L + T[L mod 4]            (optionally "/4", see Div4)
//
// which is closed under + - (by constants or other such values), multiplication by constants,
// x&3, x&^3, x%4 (non-negative x), x/4*4, x>>2<<2 and two-way conditionals whose condition only
// depends on L mod 4. It decides "this expression is round-up-to-4 of L" for ALL L >= 0 without
// running anything: K == 1 and T == [0,3,2,1].
package cong

import (
	"fmt"
	"go/token"

	"golang.org/x/tools/go/ssa"
)

// Val is K*L + T[L mod 4]; if Div4, the represented value is that quantity divided by 4 (the
// quantity is then divisible by 4 for every residue).
type Val struct {
	K    int64
	T    [4]int64
	Div4 bool
}

func Const(c int64) Val { return Val{T: [4]int64{c, c, c, c}} }
func Sym() Val          { return Val{K: 1} }

func (v Val) String() string {
	s := fmt.Sprintf("%d*L+%v", v.K, v.T)
	if v.Div4 {
		s = "(" + s + ")/4"
	}
	return s
}

// IsRoundUp4 reports whether the value equals ((L+3)/4)*4 for all L >= 0.
func (v Val) IsRoundUp4() bool {
	return !v.Div4 && v.K == 1 && v.T == [4]int64{0, 3, 2, 1}
}

// IsIdentity reports val(L) == L.
func (v Val) IsIdentity() bool { return !v.Div4 && v.K == 1 && v.T == [4]int64{} }

// IsConst reports whether the value does not depend on L.
func (v Val) IsConst() (int64, bool) {
	if v.Div4 || v.K != 0 {
		return 0, false
	}
	if v.T[0] == v.T[1] && v.T[1] == v.T[2] && v.T[2] == v.T[3] {
		return v.T[0], true
	}
	return 0, false
}

func mod4(x int64) int64 { return x & 3 }

// res returns val mod 4 for residue r of L (exact: K*L mod 4 == K*r mod 4).
func (v Val) res(r int) int64 { return mod4(v.K*int64(r) + v.T[r]) }

// nonNeg reports whether the value is non-negative for all L >= 0 (sufficient condition).
func (v Val) nonNeg() bool {
	if v.K < 0 {
		return false
	}
	for r := 0; r < 4; r++ {
		if v.K*int64(r)+v.T[r] < 0 { // smallest L with that residue
			return false
		}
	}
	return true
}

// Env tells the evaluator what the symbolic input is and how to follow calls.
type Env struct {
	// IsSym reports whether v is the symbolic input L.
	IsSym func(v ssa.Value) bool
	// Callee returns the module function to inline for a call (nil = do not follow).
	Callee func(c *ssa.Call) *ssa.Function
	// MaxDepth bounds call inlining.
	MaxDepth int
}

// Err explains why an expression is not representable; Culprit is the offending value.
type Err struct {
	Culprit ssa.Value
	Why     string
}

func (e *Err) Error() string { return e.Why }

type frame struct {
	params map[*ssa.Parameter]Val
}

// Eval evaluates v abstractly.
func (e *Env) Eval(v ssa.Value) (Val, *Err) {
	return e.eval(v, &frame{}, 0, map[ssa.Value]bool{})
}

func (e *Env) eval(v ssa.Value, fr *frame, depth int, busy map[ssa.Value]bool) (Val, *Err) {
	if e.IsSym != nil && e.IsSym(v) {
		return Sym(), nil
	}
	if busy[v] {
		return Val{}, &Err{v, "cyclic value (loop-carried) in the stride expression"}
	}
	busy[v] = true
	defer delete(busy, v)
	switch x := v.(type) {
	case *ssa.Const:
		if x.Value == nil {
			return Val{}, &Err{v, "nil constant"}
		}
		return Const(x.Int64()), nil
	case *ssa.Parameter:
		if pv, ok := fr.params[x]; ok {
			return pv, nil
		}
		return Val{}, &Err{v, "depends on parameter " + x.Name() + " of " + x.Parent().Name()}
	case *ssa.Convert:
		// integer conversions between int-like types: value preserving for 0 <= x < 2^24
		return e.eval(x.X, fr, depth, busy)
	case *ssa.ChangeType:
		return e.eval(x.X, fr, depth, busy)
	case *ssa.BinOp:
		a, err := e.eval(x.X, fr, depth, busy)
		if err != nil {
			return Val{}, err
		}
		b, err := e.eval(x.Y, fr, depth, busy)
		if err != nil {
			return Val{}, err
		}
		return binop(x, a, b)
	case *ssa.UnOp:
		// -x: linear (two's complement arithmetic keeps −x mod 4 exact)
		if x.Op == token.SUB {
			a, err := e.eval(x.X, fr, depth, busy)
			if err != nil {
				return Val{}, err
			}
			if a.Div4 {
				return Val{}, &Err{x, "negation of a quotient"}
			}
			r := Val{K: -a.K}
			for i := range r.T {
				r.T[i] = -a.T[i]
			}
			return r, nil
		}
	case *ssa.Phi:
		return e.evalPhi(x, fr, depth, busy)
	case *ssa.Call:
		if e.Callee == nil || depth >= e.MaxDepth {
			return Val{}, &Err{v, "call " + x.String() + " is not a function of the wire Length"}
		}
		g := e.Callee(x)
		if g == nil || g.Blocks == nil {
			return Val{}, &Err{v, "call " + x.String() + " is not a function of the wire Length"}
		}
		nf := &frame{params: map[*ssa.Parameter]Val{}}
		args := x.Call.Args
		if len(args) != len(g.Params) {
			return Val{}, &Err{v, "arity mismatch inlining " + g.Name()}
		}
		for i, p := range g.Params {
			if !isIntLike(p) {
				continue
			}
			av, err := e.eval(args[i], fr, depth, busy)
			if err != nil {
				return Val{}, err
			}
			nf.params[p] = av
		}
		// single return value, all returns must agree
		var res *Val
		for _, b := range g.Blocks {
			ret, ok := b.Instrs[len(b.Instrs)-1].(*ssa.Return)
			if !ok {
				continue
			}
			if len(ret.Results) != 1 {
				return Val{}, &Err{v, g.Name() + " does not return a single value"}
			}
			rv, err := e.eval(ret.Results[0], nf, depth+1, map[ssa.Value]bool{})
			if err != nil {
				return Val{}, err
			}
			if res == nil {
				res = &rv
			} else if *res != rv {
				// different returns: must be residue-selected; approximate by requiring a single return
				return Val{}, &Err{v, g.Name() + " has several returns with different values"}
			}
		}
		if res == nil {
			return Val{}, &Err{v, g.Name() + " has no return"}
		}
		return *res, nil
	}
	return Val{}, &Err{v, fmt.Sprintf("%s (%T) is not a function of the wire Length", v.String(), v)}
}

func isIntLike(p *ssa.Parameter) bool {
	s := p.Type().Underlying().String()
	switch s {
	case "int", "int32", "int64", "uint", "uint32", "uint64", "uint8", "uint16", "int8", "int16":
		return true
	}
	return false
}

func binop(x *ssa.BinOp, a, b Val) (Val, *Err) {
	bad := func(why string) (Val, *Err) { return Val{}, &Err{x, why} }
	if a.Div4 || b.Div4 {
		// only (q * 4) and (q << 2) are allowed on a quotient
		if a.Div4 && !b.Div4 {
			if c, ok := b.IsConst(); ok && ((x.Op == token.MUL && c == 4) || (x.Op == token.SHL && c == 2)) {
				a.Div4 = false
				return a, nil
			}
		}
		if b.Div4 && !a.Div4 && x.Op == token.MUL {
			if c, ok := a.IsConst(); ok && c == 4 {
				b.Div4 = false
				return b, nil
			}
		}
		return bad("quotient by 4 used other than multiplied back by 4")
	}
	switch x.Op {
	case token.ADD:
		r := Val{K: a.K + b.K}
		for i := range r.T {
			r.T[i] = a.T[i] + b.T[i]
		}
		return r, nil
	case token.SUB:
		r := Val{K: a.K - b.K}
		for i := range r.T {
			r.T[i] = a.T[i] - b.T[i]
		}
		return r, nil
	case token.MUL:
		if c, ok := b.IsConst(); ok {
			r := Val{K: a.K * c}
			for i := range r.T {
				r.T[i] = a.T[i] * c
			}
			return r, nil
		}
		if c, ok := a.IsConst(); ok {
			r := Val{K: b.K * c}
			for i := range r.T {
				r.T[i] = b.T[i] * c
			}
			return r, nil
		}
		return bad("non-linear product")
	case token.AND:
		if c, ok := b.IsConst(); ok && c == 3 {
			return Val{T: [4]int64{a.res(0), a.res(1), a.res(2), a.res(3)}}, nil
		}
		if c, ok := a.IsConst(); ok && c == 3 {
			return Val{T: [4]int64{b.res(0), b.res(1), b.res(2), b.res(3)}}, nil
		}
		if c, ok := b.IsConst(); ok && c == -4 { // x & ^3
			r := a
			for i := range r.T {
				r.T[i] -= a.res(i)
			}
			return r, nil
		}
		return bad("bitwise and with something other than 3")
	case token.AND_NOT:
		if c, ok := b.IsConst(); ok && c == 3 {
			r := a
			for i := range r.T {
				r.T[i] -= a.res(i)
			}
			return r, nil
		}
		return bad("and-not with something other than 3")
	case token.REM:
		if c, ok := b.IsConst(); ok && c == 4 {
			if !a.nonNeg() {
				return bad("x % 4 on a possibly negative x")
			}
			return Val{T: [4]int64{a.res(0), a.res(1), a.res(2), a.res(3)}}, nil
		}
		return bad("remainder by something other than 4")
	case token.QUO, token.SHR:
		c, ok := b.IsConst()
		if ok && ((x.Op == token.QUO && c == 4) || (x.Op == token.SHR && c == 2)) {
			if x.Op == token.QUO && !a.nonNeg() {
				return bad("x / 4 on a possibly negative x")
			}
			r := a
			for i := range r.T {
				r.T[i] -= a.res(i)
			}
			r.Div4 = true
			return r, nil
		}
		return bad("division / shift other than by 4")
	case token.SHL:
		if c, ok := b.IsConst(); ok && c >= 0 && c < 31 {
			m := int64(1) << uint(c)
			r := Val{K: a.K * m}
			for i := range r.T {
				r.T[i] = a.T[i] * m
			}
			return r, nil
		}
	}
	return bad("operator " + x.Op.String() + " is outside the linear/congruence domain")
}

// evalPhi handles a two-way conditional whose condition depends only on L mod 4.
func (e *Env) evalPhi(p *ssa.Phi, fr *frame, depth int, busy map[ssa.Value]bool) (Val, *Err) {
	// all edges equal?
	var vals []Val
	for _, ed := range p.Edges {
		v, err := e.eval(ed, fr, depth, busy)
		if err != nil {
			return Val{}, err
		}
		vals = append(vals, v)
	}
	same := true
	for _, v := range vals[1:] {
		if v != vals[0] {
			same = false
		}
	}
	if same {
		return vals[0], nil
	}
	if len(p.Edges) != 2 {
		return Val{}, &Err{p, "join of more than two different values"}
	}
	blk := p.Block()
	d := blk.Idom()
	if d == nil {
		return Val{}, &Err{p, "join without a dominating branch"}
	}
	ifi, ok := d.Instrs[len(d.Instrs)-1].(*ssa.If)
	if !ok {
		return Val{}, &Err{p, "join whose dominator does not end in a branch"}
	}
	// which phi edge corresponds to the true successor?
	edgeOf := func(succ *ssa.BasicBlock) int {
		for i, pred := range blk.Preds {
			if pred == d && succ == blk {
				return i
			}
			if pred != d && succ != blk && succ.Dominates(pred) {
				return i
			}
		}
		return -1
	}
	ti, fi := edgeOf(d.Succs[0]), edgeOf(d.Succs[1])
	if ti < 0 || fi < 0 || ti == fi {
		return Val{}, &Err{p, "join is not a simple two-way conditional"}
	}
	cond, ok := ifi.Cond.(*ssa.BinOp)
	if !ok {
		return Val{}, &Err{p, "branch condition is not a comparison"}
	}
	ca, err := e.eval(cond.X, fr, depth, busy)
	if err != nil {
		return Val{}, err
	}
	cb, err := e.eval(cond.Y, fr, depth, busy)
	if err != nil {
		return Val{}, err
	}
	if ca.K != 0 || cb.K != 0 || ca.Div4 || cb.Div4 {
		return Val{}, &Err{p, "branch condition depends on more than L mod 4"}
	}
	out := Val{}
	for r := 0; r < 4; r++ {
		x, y := ca.T[r], cb.T[r]
		var t bool
		switch cond.Op {
		case token.EQL:
			t = x == y
		case token.NEQ:
			t = x != y
		case token.LSS:
			t = x < y
		case token.LEQ:
			t = x <= y
		case token.GTR:
			t = x > y
		case token.GEQ:
			t = x >= y
		default:
			return Val{}, &Err{p, "unsupported comparison"}
		}
		sel := vals[fi]
		if t {
			sel = vals[ti]
		}
		if sel.Div4 {
			return Val{}, &Err{p, "quotient escapes a conditional"}
		}
		// out must have a single K: require equal K on both sides
		if vals[ti].K != vals[fi].K {
			return Val{}, &Err{p, "conditional arms have different slopes in L"}
		}
		out.K = sel.K
		out.T[r] = sel.T[r]
	}
	return out, nil
}
